#!/venv/bin/python
"""Regenerate section 16 of DESIGN.md (measured throughput, reach, determinism) from evidence/*.json.
Everything below the marker line '## 16.' is replaced."""
import glob
import json
import os

HERE = os.path.dirname(os.path.dirname(os.path.abspath(__file__)))
MARK = '## 16. Measured throughput, reach and determinism'


def main():
    rows = []
    probes = []
    for path in sorted(glob.glob(os.path.join(HERE, 'evidence', 'C*.json'))):
        d = json.load(open(path))
        c = d['coverage']
        faults = c.get('fault_kinds_fired', {})
        steps = c.get('logical_steps', {})
        rows.append(f"| {d['property_id']} | {d['tier']} | {c['evaluations']} | {c['hash_seed_replica_runs']} | "
                    f"{c['runs_per_hour']:,} | {c['distinct_nontrivial']:,} | "
                    f"{', '.join(f'{k} {v:,}' for k, v in sorted(faults.items())) or '-'} | "
                    f"{', '.join(f'{k} {v:,}' for k, v in sorted(steps.items()))} | {d['wall_s']} |")
        un = c.get('probes_unreached') or []
        probes.append(f"* **{d['property_id']}** probes hit: " +
                      ', '.join(f'{k} {v:,}' for k, v in sorted(c.get('probes', {}).items())) +
                      (f". Not reached in this run: {', '.join(un)}." if un else '.'))
    text = f"""{MARK}

Numbers below are copied by `tools/mkdesign16.py` from the evidence files written by the last runs of the
checks in `/verif` against `/repo` (quick tier unless stated; 16 worker interpreters on 16 cores; wall time
includes interpreter start-up, hash-seed replicas and evidence writing). penman has no clock, so no simulated
time exists; logical time is line steps, operations, context switches and bytes.

| property | tier | simulated runs | replica runs (other hash seeds) | runs / hour | distinct non-trivial (rule in the evidence file) | fault kinds fired (count) | logical steps | wall s |
|---|---|---|---|---|---|---|---|---|
""" + '\n'.join(rows) + """

""" + '\n'.join(probes) + """

**Determinism of the machinery.** `./vsim selftest` executes the first N runs of every property in fresh
interpreters four times (two worker-striding layouts under PYTHONHASHSEED=0, two other hash seeds) and diffs
the decision digests (plan of the run: generator, schedule, faults, chunk sizes) and the event digests
(per-operation results). A reduced version (8 runs) is part of `setup_cmd`; every check additionally re-executes
its first `replica_runs` runs under the listed hash seeds and refuses to continue (exit 2) if a *decision*
digest differs. Measured: 0 decision differences and 0 event differences for all eight properties at N = 200
(`./vsim selftest --seeds 200`), and for every batch of the multi-seed soaks (VERIF_SEED 1-12 and 101-120, all
eight quick tiers each; one thorough tier each under VERIF_SEED 20261001 and 424242).

**What the soaks found** (all corrected, see section 14): three false alarms of C17 (a process-global PRNG
toggled per call by interleaved clients; a cancelled private iterator judged afterwards; a spawned worker
without the constant PRNG stream), one of C12/C06 (`'0.0'` vs `0.0` written-form duplicate created by my own
edit operation), one further instance of known finding F19. After these, 20 seeds x 8 quick tiers and two
thorough sweeps were clean.

**Thorough tiers** (measured once per property under load): C09 120,000 runs incl. every read/write fault
offset of 12,000 small texts in ~12 min; C16 200,000 in ~2-3 min; C20 120,000 in ~3-4 min; C06 400,000
histories in ~5-8 min; C12 and C05 400,000 each in ~3-4 min; C15 600,000 + 320,000 replica runs in ~6 min;
C17 60,000 runs + 64,000 replica runs (8 hash seeds) + enumerated cancel points in ~35 min.
"""
    p = os.path.join(HERE, 'DESIGN.md')
    s = open(p).read()
    if MARK in s:
        s = s[:s.index(MARK)]
    s = s.rstrip('\n') + '\n\n' + text
    open(p, 'w').write(s)
    print('section 16 rewritten from', len(rows), 'evidence files')


if __name__ == '__main__':
    main()
