#!/venv/bin/python
"""Re-evaluate every archived seeded change (/verif/seeded/*/) against the current checks.
For each: the property it was written against plus every check that caught it before."""
import glob, json, os, subprocess, sys
VERIF = os.path.dirname(os.path.dirname(os.path.abspath(__file__)))
names = [a for a in sys.argv[1:] if not a.startswith('--')]
# --shard=K/N: every N-th seed starting at K (run N of these side by side; each needs its own VSIM_SEEDED_WT);
# --skip=FILE: names listed in FILE (first word of each line) are not evaluated again
shard = next((a[8:] for a in sys.argv[1:] if a.startswith('--shard=')), None)
skipf = next((a[7:] for a in sys.argv[1:] if a.startswith('--skip=')), None)
skip = {l.split()[0] for l in open(skipf) if l.strip()} if skipf else set()
# --max=N: only seeds s01..sN
maxn = int(next((a[6:] for a in sys.argv[1:] if a.startswith('--max=')), 10**6))
for n_, d in enumerate(sorted(glob.glob(os.path.join(VERIF, 'seeded', 's*')))):
    name = os.path.basename(d)
    if not os.path.isdir(d) or name in skip or int(name[1:].split('-')[0]) > maxn:
        continue
    if shard and n_ % int(shard.split('/')[1]) != int(shard.split('/')[0]):
        continue
    if names and not any(n in name for n in names):
        continue
    m = json.load(open(os.path.join(d, 'meta.json')))
    props = [m['property']] + sorted({c.split(':')[0] for c in m.get('caught_by', [])} - {m['property']})
    r = subprocess.run([os.path.join(VERIF, 'tools', 'seeded.py'), d, name] + props, capture_output=True, text=True)
    m2 = json.load(open(os.path.join(d, 'meta.json')))
    print(name, 'valid=', m2.get('valid'), 'caught_by=', m2.get('caught_by'),
          [(k, v['exit']) for k, v in m2['checks'].items()], flush=True)
print('ALLDONE')
