#!/venv/bin/python
"""Re-evaluate every archived seeded change (/verif/seeded/*/) against the current checks.
For each: the property it was written against plus every check that caught it before."""
import glob, json, os, subprocess, sys
VERIF = os.path.dirname(os.path.dirname(os.path.abspath(__file__)))
names = sys.argv[1:]
for d in sorted(glob.glob(os.path.join(VERIF, 'seeded', 's*'))):
    name = os.path.basename(d)
    if names and not any(n in name for n in names):
        continue
    m = json.load(open(os.path.join(d, 'meta.json')))
    props = [m['property']] + sorted({c.split(':')[0] for c in m.get('caught_by', [])} - {m['property']})
    r = subprocess.run([os.path.join(VERIF, 'tools', 'seeded.py'), d, name] + props, capture_output=True, text=True)
    m2 = json.load(open(os.path.join(d, 'meta.json')))
    print(name, 'valid=', m2.get('valid'), 'caught_by=', m2.get('caught_by'),
          [(k, v['exit']) for k, v in m2['checks'].items()], flush=True)
print('ALLDONE')
