#!/venv/bin/python
"""Validate a sub-agent's seeded change and run the checks against it.

  tools/seeded.py <seed-dir> <name> <PROPERTY> [other checks to run ...]

<seed-dir> holds patch.diff, demo.py, notes.md (written by a sub-agent that saw only the property text).
Confirms in a fresh scratch worktree of /repo (under /tmp, removed afterwards): the patch applies, the pinned
test suite passes with it, the demo exits 0 without and non-zero with the patch.  Then runs the named checks
with VERIF_REPO pointing at the patched scratch tree and records everything in /verif/seeded/<name>/meta.json.
"""
import json
import os
import shutil
import subprocess
import sys
import time

VERIF = os.path.dirname(os.path.dirname(os.path.abspath(__file__)))
WT = os.environ.get('VSIM_SEEDED_WT', '/tmp/vsim-seeded-wt')


def sh(cmd, **kw):
    return subprocess.run(cmd, shell=True, capture_output=True, text=True, **kw)


def main():
    src, name, prop = sys.argv[1], sys.argv[2], sys.argv[3]
    others = sys.argv[4:]
    dst = os.path.join(VERIF, 'seeded', name)
    os.makedirs(dst, exist_ok=True)
    for f in ('patch.diff', 'demo.py', 'notes.md'):
        if os.path.exists(os.path.join(src, f)) and os.path.abspath(src) != os.path.abspath(dst):
            shutil.copy(os.path.join(src, f), os.path.join(dst, f))
    meta = {'name': name, 'property': prop, 'origin': 'sub-agent given only the property text and a scratch worktree',
            'base_commit': sh('git -C /repo rev-parse --short HEAD').stdout.strip()}
    sh(f'git -C /repo worktree remove --force {WT}; rm -rf {WT}')
    sh(f'git -C /repo worktree add -q --detach {WT} HEAD')
    try:
        env = dict(os.environ, PYTHONPATH=WT, PYTHONDONTWRITEBYTECODE='1')
        # same relative layout the sub-agent worked in: <worktree>/<rel>/demo.py
        top = sh(f'git -C {src} rev-parse --show-toplevel').stdout.strip() or os.path.dirname(os.path.abspath(src.rstrip('/')))
        rel = os.path.relpath(os.path.abspath(src), top)
        if os.path.abspath(top) == VERIF:
            # re-evaluation from the archived copy under /verif/seeded/: rounds 1-2 worked in <worktree>/seed,
            # rounds 3-4 in <worktree>/seed/<a|b|c>
            rel = 'seed' if name[1:3].isdigit() and int(name[1:3]) <= 19 else 'seed/x'
        os.makedirs(os.path.join(WT, rel), exist_ok=True)
        demo = os.path.join(WT, rel, 'demo.py')
        shutil.copy(os.path.join(dst, 'demo.py'), demo)
        txt = open(demo).read().replace(top, WT)     # absolute paths into the agent's own worktree
        open(demo, 'w').write(txt)
        r0 = subprocess.run(['/venv/bin/python', demo], cwd=WT, env=env, capture_output=True, text=True, timeout=600)
        meta['demo_without_patch_exit'] = r0.returncode
        a = sh(f'git -C {WT} apply {dst}/patch.diff')
        meta['patch_applies'] = a.returncode == 0
        if a.returncode:
            meta['apply_error'] = a.stderr[-400:]
        t = subprocess.run('/venv/bin/python -m pytest -q -p no:cacheprovider 2>&1 | tail -1', shell=True, cwd=WT, env=env,
                           capture_output=True, text=True)
        meta['tests_with_patch'] = t.stdout.strip()
        r1 = subprocess.run(['/venv/bin/python', demo], cwd=WT, env=env, capture_output=True, text=True, timeout=600)
        meta['demo_with_patch_exit'] = r1.returncode
        meta['demo_with_patch_output'] = (r1.stdout + r1.stderr)[-600:]
        meta['valid'] = bool(meta['patch_applies'] and meta['tests_with_patch'].startswith('93 passed')
                             and r0.returncode == 0 and r1.returncode != 0)
        meta['checks'] = {}
        for pid in [prop] + others:
            for tier in ('quick',) + (('thorough',) if os.environ.get('THOROUGH') else ()):
                t0 = time.time()
                c = subprocess.run([os.path.join(VERIF, 'vsim'), 'check', pid, '--tier', tier], capture_output=True,
                                   text=True, cwd=VERIF, env=dict(os.environ, VERIF_REPO=WT))
                lines = [l[:300] for l in c.stdout.splitlines() if l.startswith(('VIOLATION', '  oracle', 'HARNESS', 'RESULT'))]
                meta['checks'][f'{pid}:{tier}'] = {'exit': c.returncode, 'wall_s': round(time.time() - t0, 1),
                                                  'caught': c.returncode == 1, 'lines': lines[:8]}
                if c.returncode == 1:
                    break
        meta['caught_by'] = sorted(k for k, v in meta['checks'].items() if v['caught'])
        meta['ran'] = 'tools/seeded.py: fresh worktree of /repo HEAD, git apply patch.diff, pytest, demo.py before/after, ' \
                      'vsim check <ID> --tier quick with VERIF_REPO=<patched worktree>'
    finally:
        sh(f'git -C /repo worktree remove --force {WT}; rm -rf {WT}')
        sh(f'git -C {VERIF} clean -fdq replays')
    with open(os.path.join(dst, 'meta.json'), 'w') as fh:
        json.dump(meta, fh, indent=1)
    print(json.dumps(meta, indent=1))


if __name__ == '__main__':
    main()
