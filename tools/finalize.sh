#!/bin/bash
# Refresh every evidence file from /verif against /repo, validate, regenerate DESIGN section 16.
cd /verif || exit 2
rc=0
for p in C05 C06 C09 C12 C15 C16 C17 C20; do
  ./vsim check $p --tier quick > /tmp/finalize_$p.log 2>&1; e=$?
  grep -E "^(RESULT|VIOLATION|HARNESS)" /tmp/finalize_$p.log | cut -c1-200
  [ $e -ne 0 ] && rc=1
done
/venv/bin/python tools/mkmanifest.py
python3-vt - <<'PY'
import json, jsonschema, glob
jsonschema.validate(json.load(open('/verif/MANIFEST.json')), json.load(open('/root/.vp/MANIFEST.schema.json')))
sch = json.load(open('/root/.vp/EVIDENCE.schema.json'))
for f in sorted(glob.glob('/verif/evidence/C*.json')):
    d = json.load(open(f)); jsonschema.validate(d, sch)
    assert d['coverage']['penman_tree'], f
    print('ok', f, d['tier'], d['coverage']['evaluations'], d['violations'])
PY
[ $? -ne 0 ] && rc=1
/venv/bin/python tools/mkdesign16.py
git -C /verif clean -fdq replays
echo "finalize rc=$rc"
exit $rc
