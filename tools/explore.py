#!/venv/bin/python
"""Developer tool: run N planned runs of a property across processes and cluster violations."""
import sys, os, collections, json
sys.path.insert(0, os.path.dirname(os.path.dirname(os.path.abspath(__file__))))
from concurrent.futures import ProcessPoolExecutor
import multiprocessing as mp

def work(args):
    pid, seed, tier, lo, hi = args
    from sim.core import env; env.setup()
    from sim.core import runner, known
    prop = runner.load_prop(pid)
    kn = known.load()
    out = []
    for i in range(lo, hi):
        tr = runner.plan_run(prop, seed, tier, i)
        try:
            r = prop.execute(tr)
        except Exception as e:
            import traceback
            out.append((i, 'HARNESS', traceback.format_exc()[-800:], None)); continue
        for v in r.violations:
            kid = known.match(prop, kn, r.trace or tr, v)
            out.append((i, v.sig, json.dumps(v.detail, default=str)[:int(os.environ.get('W', '600'))], kid))
    return out

if __name__ == '__main__':
    pid, n = sys.argv[1], int(sys.argv[2])
    seed = int(sys.argv[3]) if len(sys.argv) > 3 else 20261001
    tier = sys.argv[4] if len(sys.argv) > 4 else 'quick'
    chunks = [(pid, seed, tier, lo, min(n, lo + max(1, n // 64))) for lo in range(0, n, max(1, n // 64))]
    with ProcessPoolExecutor(16, mp_context=mp.get_context('fork')) as ex:
        res = [x for part in ex.map(work, chunks) for x in part]
    c = collections.Counter((s, k) for _, s, _, k in res)
    print(c)
    shown = collections.Counter()
    for i, s, d, k in res:
        if k is None and shown[s] < int(os.environ.get('K', '4')):
            shown[s] += 1
            print(i, s, d); print()
