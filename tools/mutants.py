#!/venv/bin/python
"""Sensitivity harness: plant hand-written mutants of penman in a scratch worktree under
/tmp (never in /repo), confirm the pinned test suite still passes, run the named checks
against the scratch tree (VERIF_REPO) and report whether each mutant is caught.

  tools/mutants.py [name-substring ...]      (NOPYTEST=1 skips the test-suite run)
"""
import json
import os
import subprocess
import sys
import time

VERIF = os.path.dirname(os.path.dirname(os.path.abspath(__file__)))
SCRATCH = '/tmp/vsim-mutant-wt'

# (name, file, old, new, [properties expected to catch it], behaviour-preserving?)
MUTANTS = [
    # ---- C17 ------------------------------------------------------------------------------------
    ('c17-reconfigure-borrows-argument', 'penman/layout.py',
     "    p = copy.deepcopy(g)\n    if top is None:",
     "    p = g\n    _saved = (list(g.triples), {k: list(v) for k, v in g.epidata.items()})\n    if top is None:",
     ['C17'], False, [
         ("    return configure(p, top=top, model=model)",
          "    try:\n        return configure(p, top=top, model=model)\n    finally:\n        g.triples[:] = _saved[0]\n        g.epidata.clear()\n        g.epidata.update(_saved[1])")]),
    ('c17-pop-identity', 'penman/layout.py', "        if isinstance(datum, Pop):\n            break",
     "        if datum is POP:\n            break", ['C17'], False, []),
    ('c17-or-without-deepcopy', 'penman/graph.py',
     "            g = copy.deepcopy(self)\n            g.metadata.clear()\n            g |= other",
     "            g = Graph(self.triples, top=self._top, epidata=self.epidata)\n            g.triples = self.triples\n            g |= other",
     ['C17', 'C15'], False, []),
    ('c17-model-memo-shared-across-models', 'penman/model.py',
     "    def is_role_inverted(self, role: Role) -> bool:\n        \"\"\"Return ``True`` if *role* is inverted.\"\"\"\n        return not self._has_role(role) and role.endswith('-of')",
     "    def is_role_inverted(self, role: Role) -> bool:\n        \"\"\"Return ``True`` if *role* is inverted.\"\"\"\n        if role not in _MEMO:\n            _MEMO[role] = not self._has_role(role) and role.endswith('-of')\n        return _MEMO[role]",
     ['C17'], False, [("_ReificationSpec = Tuple", "_MEMO: dict = {}\n_ReificationSpec = Tuple")]),
    ('c17-ior-set-order', 'penman/graph.py',
     "            self.triples.extend(t for t in other.triples if t in new)",
     "            self.triples.extend(new)", ['C17', 'C15'], False, []),
    ('c17-indicate-branches-mutates-arg', 'penman/transform.py',
     "    new_triples: List[BasicTriple] = []\n    for t in g.triples:\n        push = next(",
     "    new_triples = g.triples\n    g.triples = list(g.triples)\n    new_triples[:] = []\n    for t in g.triples:\n        push = next(",
     ['C17'], False, []),
    ('c17-errors-unsorted-set', 'penman/model.py',
     "                for uvar in sorted(unreachable):", "                for uvar in unreachable:", ['C17', 'C16'], False, []),
    ('c17-interpret-stateful-cache', 'penman/layout.py',
     "    variables = {v for v, _ in t.nodes()}\n    top, triples, epidata = _interpret_node(t.node, variables, model)",
     "    _SEEN.update(v for v, _ in t.nodes())\n    variables = _SEEN\n    top, triples, epidata = _interpret_node(t.node, variables, model)",
     ['C17'], False, [("_default_model = Model()", "_default_model = Model()\n_SEEN: set = set()")]),
    # ---- C09 ------------------------------------------------------------------------------------
    ('c09-iterparse-drops-comment-start', 'penman/_parse.py',
     "    while tokens and tokens.peek().type in ('COMMENT', 'LPAREN'):",
     "    while tokens and tokens.peek().type in ('LPAREN',):", ['C09', 'C20'], False, []),
    ('c09-dumps-single-newline', 'penman/codec.py', "    return '\\n\\n'.join(strings)", "    return '\\n'.join(strings)",
     [], True, []),    # loads back identically: blank-line separation is not required by the statement
    ('c09-metadata-value-strip', 'penman/_parse.py',
     "                key, _, value = meta.rstrip().partition(' ')", "                key, _, value = meta.strip().partition(' ')",
     [], True, []),
    ('c09-splitlines-again', 'penman/_lexer.py', "        lines = re.split(r'\\r\\n|\\r|\\n', lines)",
     "        lines = lines.splitlines()", ['C09'], False, []),
    ('c09-dump-swallows-oserror', 'penman/codec.py',
     "        with open(file, 'w', encoding=encoding) as fh:\n            _dump_stream(fh, graphs, codec, indent, compact)",
     "        try:\n            with open(file, 'w', encoding=encoding) as fh:\n                _dump_stream(fh, graphs, codec, indent, compact)\n        except OSError:\n            pass",
     ['C09'], False, []),
    ('c09-load-reads-whole-file-splitlines', 'penman/codec.py',
     "        with open(source, encoding=encoding) as fh:\n            return list(codec.iterdecode(fh))",
     "        with open(source, encoding=encoding) as fh:\n            return list(codec.iterdecode(fh.read().splitlines()))",
     ['C09'], False, []),
    ('c09-dump-stream-no-separator', 'penman/codec.py',
     "    for s in ss:\n        print(file=fh)\n        print(s, file=fh)", "    for s in ss:\n        print(s, end='', file=fh)",
     [], True, []),     # still loads back to equal graphs: separators are not needed by the notation
    # ---- C16 ------------------------------------------------------------------------------------
    ('c16-exitcode-assign', 'penman/__main__.py', "                exitcode |= process(", "                exitcode = process(",
     ['C16'], False, []),
    ('c16-last-graph-not-counted', 'penman/__main__.py',
     "        if check:\n            exitcode |= _check(g, model)", "        if check:\n            exitcode = _check(g, model)",
     ['C16'], False, []),
    ('c16-has-role-double-inversion', 'penman/model.py',
     "            role.endswith('-of') and self._has_role(role[:-3])",
     "            role.endswith('-of') and self.has_role(role[:-3])", ['C16'], False, []),
    # ---- C20 ------------------------------------------------------------------------------------
    ('c20-swap-reify-dereify', 'penman/__main__.py',
     "    if normalize_options['reify_edges']:\n        g = transform.reify_edges(g, model)\n    if normalize_options['dereify_edges']:\n        g = transform.dereify_edges(g, model)",
     "    if normalize_options['dereify_edges']:\n        g = transform.dereify_edges(g, model)\n    if normalize_options['reify_edges']:\n        g = transform.reify_edges(g, model)",
     ['C20'], False, []),
    ('c20-drop-compact', 'penman/__main__.py', "        'compact': args.compact,", "        'compact': False,", ['C20'], False, []),
    ('c20-reconfigure-without-model', 'penman/__main__.py',
     "        t = layout.reconfigure(g, model=model, key=key, **kwargs)", "        t = layout.reconfigure(g, key=key, **kwargs)",
     ['C20'], False, []),
    ('c20-blank-line-after-every-graph', 'penman/__main__.py',
     "        if first:\n            first = False\n        else:\n            print(file=out)",
     "        first = False", [], True, []),   # separators between graphs are not documented; blocks and order unchanged
    # ---- C06 ------------------------------------------------------------------------------------
    ('c06-no-superfluous-pop-removal', 'penman/layout.py',
     "        # remove any superfluous POPs\n        while data and isinstance(data[-1], Pop):\n            data.pop()",
     "        pass", ['C06'], False, []),
    ('c06-drop-pushed-set', 'penman/layout.py',
     "                if pvar in pushed:", "                if False and pvar in pushed:", ['C06'], False, []),
    ('c06-established-guard-removed', 'penman/layout.py',
     "            if push and nodemap.get(target) and nodemap[target][0] == target:",
     "            if False:", ['C06', 'C05'], False, []),
    # ---- C12 ------------------------------------------------------------------------------------
    ('c12-attr-markers-forget-pops', 'penman/transform.py',
     "    node_epis = other_epis\n    node_epis.extend(pops)\n    return role_epis, node_epis",
     "    node_epis = other_epis\n    return role_epis, node_epis", [], True, []),   # layout differs, content does not
    ('c12-reify-attributes-reuses-var', 'penman/transform.py',
     "            variables.add(var)\n            role_triple = (source, role, var)", "            role_triple = (source, role, var)",
     ['C12'], False, []),
    ('c12-transform-drops-top', 'penman/transform.py',
     "    g = Graph(\n        new_triples, top=g.top, epidata=g.epidata, metadata=g.metadata\n    )",
     "    g = Graph(new_triples, epidata=g.epidata, metadata=g.metadata)", ['C12'], False, []),
    # ---- C05 ------------------------------------------------------------------------------------
    ('c05-rearrange-reverse-unstable', 'penman/layout.py',
     "    branches[:] = first + sorted(rest, key=key)",
     "    branches[:] = first + sorted(rest[::-1], key=key)", ['C05'], False, []),
    ('c05-reconfigure-implicit-top', 'penman/layout.py',
     "    if top is None:\n        # an implicit top is the source of the first triple, which\n        # sorting the triples below may change\n        top = g.top\n",
     "", ['C05'], False, []),
    ('c05-rearrange-drops-duplicate-branches', 'penman/layout.py',
     "    branches[:] = first + sorted(rest, key=key)",
     "    branches[:] = first + sorted(dict.fromkeys(map(tuple, rest)) if all(isinstance(b[1], (str, type(None))) for b in rest) else rest, key=key)",
     [], True, []),
    # ---- C15 ------------------------------------------------------------------------------------
    ('c15-isub-keeps-top', 'penman/graph.py',
     "            if self._top not in possible_variables:\n                self._top = None", "            pass", ['C15'], False, []),
    ('c15-edges-by-sources-only', 'penman/graph.py',
     "        vs = set(src for src, _, _ in self.triples)\n        if self._top is not None:\n            vs.add(self._top)\n        return vs",
     "        vs = set(src for src, _, _ in self.triples)\n        return vs", ['C15'], False, []),
    # ---- round 2 of hand-written mutants ---------------------------------------------------------------
    ('c06-no-progress-check', 'penman/layout.py',
     "        elif len(data) >= data_count:\n            raise LayoutError('unknown configuration error')",
     "        elif len(data) > data_count:\n            raise LayoutError('unknown configuration error')\n        elif len(data) == data_count:\n            data = skipped + data\n            skipped.clear()",
     ['C06'], False, []),
    ('c06-layouterror-as-valueerror', 'penman/layout.py',
     "        raise LayoutError(f'top is not a variable: {top!r}')", "        raise ValueError(f'top is not a variable: {top!r}')",
     ['C06'], False, []),
    ('c16-dfs-forward-only', 'penman/model.py',
     "    for var, targets in q.items():\n        for target in targets:\n            if target not in q:\n                q[target] = set()\n            q[target].add(var)",
     "    pass", ['C16'], False, []),
    ('c16-empty-graph-no-error', 'penman/model.py',
     "            err[None].append('graph is empty')", "            pass", ['C16'], False, []),
    ('c20-indent-zero-means-default', 'penman/__main__.py',
     "                indent = int(indent)\n                if indent < -1:", "                indent = int(indent) or -1\n                if indent < -1:",
     ['C20'], False, []),
    ('c20-triples-indent-flipped', 'penman/__main__.py',
     "                indent=bool(format_options.get('indent', True)),", "                indent=not bool(format_options.get('indent', True)),",
     [], True, []),   # --triples output is compared token for token: line style is not documented
    ('c20-check-mutates-before-format-only-first', 'penman/__main__.py',
     "    if normalize_options['make_variables']:\n        t.reset_variables(normalize_options['make_variables'])",
     "    if normalize_options['make_variables'] and not normalize_options['rearrange']:\n        t.reset_variables(normalize_options['make_variables'])",
     ['C20'], False, []),
    ('c15-reentrancies-ignore-top', 'penman/graph.py',
     "        if self.top is not None:\n            entrancies[self.top] += 1  # implicit entrancy to top", "        pass",
     ['C15'], False, []),
    ('c15-attributes-ignore-role-filter', 'penman/graph.py',
     "            for t in self._filter_triples(source, role, target)\n            if t[1] != CONCEPT_ROLE and t[2] not in variables",
     "            for t in self._filter_triples(source, None, target)\n            if t[1] != CONCEPT_ROLE and t[2] not in variables",
     ['C15'], False, []),
    ('c15-ior-drops-markers-of-added', 'penman/graph.py',
     "                if t in other.epidata:\n                    self.epidata[t] = list(other.epidata[t])\n            self.epidata.update(other.epidata)",
     "                pass", ['C15'], False, []),
    ('c05-attributes-first-reversed', 'penman/layout.py',
     "            criterion1 = target in variables\n        else:", "            criterion1 = target not in variables\n        else:",
     ['C05'], False, []),
    ('c05-alphanumeric-as-string', 'penman/model.py',
     "            roleno = int(m.group(2))", "            roleno = m.group(2)", ['C05'], False, []),
    ('c12-dereify-collapses-top', 'penman/transform.py',
     "    fixed: Set[Target] = set([g.top])", "    fixed: Set[Target] = set()", ['C12'], False, []),
    ('c12-indicate-branches-direction', 'penman/transform.py',
     "                new_triples.append((t[2], model.top_role, t[0]))", "                new_triples.append((t[0], model.top_role, t[2]))",
     ['C12'], False, []),
    ('c17-preconfigure-consumes-epidata', 'penman/layout.py',
     "        for epi in epidata.get(triple, []):\n            if isinstance(epi, Push):\n                pvar = epi.variable",
     "        for epi in epidata.pop(triple, []):\n            if isinstance(epi, Push):\n                pvar = epi.variable",
     ['C17', 'C06'], False, []),
    ('c17-interpret-shares-metadata', 'penman/graph.py',
     "        self.metadata = dict(metadata)", "        self.metadata = metadata", ['C17'], False, []),
    ('c09-lexer-strips-lines', 'penman/_lexer.py',
     "        matches = regex.finditer(line)", "        matches = regex.finditer(line.strip())", [], True, []),  # offsets change only
    ('c09-load-opens-binary-latin1', 'penman/codec.py',
     "        with open(source, encoding=encoding) as fh:\n            return list(codec.iterdecode(fh))",
     "        with open(source, encoding=encoding, newline='\\n') as fh:\n            return list(codec.iterdecode(fh))",
     ['C09'], False, []),
    ('c06-hang-on-surprise', 'penman/layout.py',
     "            skipped.insert(0, data.pop())", "            skipped.insert(0, data[-1])", ['C06'], False, []),
    # ---- behaviour-preserving refactorings: every check must stay silent ------------------------------
    ('refactor-rename-locals', 'penman/graph.py',
     "            removed = set(other.triples)\n            self.triples[:] = [t for t in self.triples if t not in removed]\n            for t in removed:",
     "            gone = set(other.triples)\n            self.triples[:] = [t for t in self.triples if t not in gone]\n            for t in gone:",
     [], True, []),
    ('refactor-loop-instead-of-comprehension', 'penman/layout.py',
     "    nodemap: _Nodemap = {var: None for var in g.variables()}  # type: ignore",
     "    nodemap = {}\n    for var in sorted(g.variables(), key=str):\n        nodemap[var] = None", [], True, []),
    ('refactor-reorder-independent-statements', 'penman/transform.py',
     "    variables = g.variables()\n    new_epidata = dict(g.epidata)\n    new_triples: List[BasicTriple] = []\n    i = 2",
     "    i = 2\n    new_triples: List[BasicTriple] = []\n    new_epidata = dict(g.epidata)\n    variables = g.variables()", [], True, []),
]
ALL = ['C05', 'C06', 'C09', 'C12', 'C15', 'C16', 'C17', 'C20']


def sh(cmd, **kw):
    return subprocess.run(cmd, shell=True, capture_output=True, text=True, **kw)


def main():
    want = sys.argv[1:]
    results = []
    for name, path, old, new, props, preserving, extra in MUTANTS:
        if want and not any(w in name for w in want):
            continue
        sh(f'git -C /repo worktree remove --force {SCRATCH}; rm -rf {SCRATCH}')
        r = sh(f'git -C /repo worktree add -q --detach {SCRATCH} HEAD')
        if r.returncode:
            print('worktree failed', r.stderr)
            return 2
        try:
            fp = os.path.join(SCRATCH, path)
            s = open(fp).read()
            edits = [(old, new)] + list(extra)
            ok = True
            for o, n in edits:
                if o not in s:
                    print(f'{name}: PATCH DOES NOT APPLY ({o[:50]!r})')
                    ok = False
                    break
                s = s.replace(o, n, 1)
            if not ok:
                continue
            open(fp, 'w').write(s)
            tests = 'skipped'
            if not os.environ.get('NOPYTEST'):
                t = sh(f"cd {SCRATCH} && timeout 300 /venv/bin/python -m pytest -q -p no:cacheprovider -x 2>&1 | tail -1")
                tests = t.stdout.strip()
            row = {'mutant': name, 'tests': tests, 'expected': props, 'preserving': preserving, 'caught_by': [], 'silent': []}
            for pid in (ALL if (preserving or os.environ.get('ALLPROPS')) else props):
                t0 = time.time()
                e = dict(os.environ, VERIF_REPO=SCRATCH)
                c = subprocess.run([os.path.join(VERIF, 'vsim'), 'check', pid, '--tier', 'quick'] +
                                   (['--runs', os.environ['RUNS']] if os.environ.get('RUNS') else []),
                                   capture_output=True, text=True, env=e, cwd=VERIF)
                viol = [l for l in c.stdout.splitlines() if l.startswith('VIOLATION')]
                what = [l.strip()[:160] for l in c.stdout.splitlines() if l.startswith('  oracle=') or 'is back' in l]
                if c.returncode == 1 and viol:
                    row['caught_by'].append([pid, round(time.time() - t0, 1), what[:2]])
                elif c.returncode == 0:
                    row['silent'].append(pid)
                else:
                    row.setdefault('harness', []).append([pid, c.returncode, c.stdout[-600:]])
            verdict = ('OK-silent' if preserving and not row['caught_by'] and not row.get('harness') else
                       'FALSE-ALARM' if preserving else
                       'CAUGHT' if row['caught_by'] else 'MISSED')
            row['verdict'] = verdict
            results.append(row)
            print(json.dumps(row), flush=True)
        finally:
            sh(f'git -C /repo worktree remove --force {SCRATCH}; rm -rf {SCRATCH}')
            sh(f'git -C {VERIF} clean -fdq replays')
    print('SUMMARY', {r['mutant']: r['verdict'] for r in results})


if __name__ == '__main__':
    sys.exit(main())
