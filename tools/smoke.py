#!/venv/bin/python
"""Developer tool: run a few planned runs of a property in this process."""
import sys, os, time, collections, faulthandler
sys.path.insert(0, os.path.dirname(os.path.dirname(os.path.abspath(__file__))))
if __name__ == '__main__':
    faulthandler.enable()
    from sim.core import env; env.setup()
    from sim.core import runner
    pid, lo, hi = sys.argv[1], int(sys.argv[2]), int(sys.argv[3])
    seed = int(sys.argv[4]) if len(sys.argv) > 4 else 1
    prop = runner.load_prop(pid)
    nv = collections.Counter(); ex = {}; st = collections.Counter()
    t0 = time.time()
    for i in range(lo, hi):
        faulthandler.dump_traceback_later(60, exit=True)
        tr = runner.plan_run(prop, seed, 'quick', i)
        if os.environ.get('NOTRANSPORT'):
            tr['transport'] = {}; tr['subprocess'] = False
        t1 = time.time()
        r = prop.execute(tr)
        if os.environ.get('V'): print(i, round(time.time()-t1, 2), dict((k, v) for k, v in r.stats.items() if k.startswith('step')), flush=True)
        st.update(r.stats)
        for v in r.violations:
            nv[v.sig] += 1; ex.setdefault(v.sig, (i, v))
    faulthandler.cancel_dump_traceback_later()
    print(round(time.time() - t0, 2), nv)
    print({k: v for k, v in sorted(st.items())})
    for s, (i, v) in ex.items():
        print(s, i, str(v.detail)[:int(os.environ.get('W', '1500'))]); print()
