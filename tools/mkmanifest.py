#!/venv/bin/python
"""Regenerate /verif/MANIFEST.json from the table below (run after adding a check)."""
import json, os, sys

HERE = os.path.dirname(os.path.dirname(os.path.abspath(__file__)))
BASELINE = ('cd /repo && /venv/bin/python -m pytest -ra -q -p no:cacheprovider --timeout=900 '
            '--continue-on-collection-errors')

SIM = 'deterministic simulation with fault injection: '

CLAIMED = {
    'C09': {
        'text': 'Seeded simulation of every load/dump entry point over simulated raw devices beneath the real CPython '
                'text/buffer layers: container and line-framing variants, read/write chunking to 1 byte, EINTR, short '
                'writes, EIO / premature EOF / ENOSPC / close errors at sampled (quick) or every (thorough, texts <= 400 B) '
                'byte offset, interleaved lazy decoders, a lazy decoder feeding dump (stream copy) with faults on either side, '
                'dump/load under BOM codecs on seekable simulated files, results annotated by user code between decodes. '
                'Sampling, not proof. Every run is also under bounded liveness: a suspected hang (wall clock) is re-executed under a budget of penman line events and only exceeding that logical budget is reported.',
        'note': 'Trusts: CPython io stack, my line splitter and tree writer (independent of penman), penman.loads of the '
                'same text as the reference meaning. Round-trip equality is top + triple multiset + ordered metadata.',
        'technique': SIM + 'simulated raw I/O devices (chunking, EINTR, EIO, EOF, ENOSPC) under the real io layers, seeded '
                     'framing/container/fault plans, interleaved lazy iterators, ddmin-minimised replayable traces',
        'design_ref': 'DESIGN.md section 4 (C09)',
    },
    'C16': {
        'text': 'The real main() runs in-process at a simulated process boundary (argv, stdin, FILE... in every order incl. the '
                'same file twice, stdout, exit status accumulated over the history of inputs) with C09\'s stream faults; an '
                'independent role-membership reference decides the offending triples per graph, the exit status and the '
                'error-N metadata; a sample is cross-checked against real `python -m penman` child processes. Model.errors on '
                'arbitrary triple lists is only sampled through edit histories (disconnect, empty, re-top, self-loops, duplicates, '
                'inverted spellings, falsy / target-only tops, island cycles); inputs may already carry error-N metadata. Every run is also under bounded liveness: a suspected hang (wall clock) is re-executed under a budget of penman line events and only exceeding that logical budget is reported.',
        'note': 'Trusts the reference reading of "defined directly or as a single inversion" and of weak connectivity '
                '(union-find over non-instance triples among source variables). Does not enumerate triple lists x tops.',
        'technique': SIM + 'in-process simulation of the CLI process boundary over SimFS with seeded input-file histories and '
                     'stream faults, reference model for role errors/exit status, subprocess cross-check',
        'design_ref': 'DESIGN.md section 4 (C16)',
    },
    'C20': {
        'text': 'The tool as a stream-to-stream process under the simulator: output compared block by block with the documented '
                'library pipeline composed from public calls, under sampled option sets (power set of normalisation options x '
                'formatting x models x stdin/1-3 files) and stream faults; formatting pairs must decode to equal graphs; the '
                'tool is re-applied to its own output (sequentially and as two concurrently scheduled processes joined by a '
                'bounded simulated pipe); a sample runs as real child processes (one block-buffered, one unbuffered) under two '
                'hash seeds; the library reference runs at the default log level of the library while main() sets its own. Every run is also under bounded liveness: a suspected hang (wall clock) is re-executed under a budget of penman line events and only exceeding that logical budget is reported.',
        'note': 'Trusts the reference pipeline order taken from docs/command.rst and the statement; blank-line counts across file '
                'boundaries are only constrained by the normal-form clause (known finding F16); --triples is excluded from feed-back.',
        'technique': SIM + 'in-process CLI process simulation over SimFS, bounded-pipe two-process pipeline under a seeded baton '
                     'scheduler, differential oracle against the library pipeline, subprocess cross-check',
        'design_ref': 'DESIGN.md section 4 (C20)',
    },
    'C06': {
        'text': 'Seeded fault/edit histories on one live Graph: loss, duplication, reordering, misattachment, aliasing and '
                'staleness of Push/POP markers, reordering of the triple log, content edits, restarts and probes, with encode '
                'judged after every step against union-find connectivity and multiset content references and under a line-step '
                'budget (bounded liveness); non-string variables in the totality clause. History/fault-sequence tier: no scheduling '
                'or I/O dimension exists in this property.',
        'note': 'Trusts the reference notions of variable, weak connectivity and content (one deinversion, constants by written '
                'form). Push on a non-variable target is content by the pinned test_encode and is never injected.',
        'technique': SIM + 'seeded fault sequences on the stored epigraph (marker loss/duplication/reordering/staleness) with '
                     'per-step invariants against a reference model and a step budget; minimised replayable histories',
        'design_ref': 'DESIGN.md section 4 (C06)',
    },
    'C12': {
        'text': 'Seeded programs of transformations (CLI order and any other, indicate-branches at most once, restarts) on decoded, '
                'hand-built, edited and re-topped graphs under default/AMR/custom models with invariants after every step: no '
                'exception, same top, well-formed, connected, encodes and decodes to itself; contraction/removal clauses; after '
                'marker-migrating steps every nested node gets exactly one top-role triple; edits (optionally preceded by queries) '
                'before and between transformations. Every run is also under bounded liveness: a suspected hang (wall clock) is re-executed under a budget of penman line events and only exceeding that logical budget is reported.',
        'note': 'History tier without scheduling/I-O dimension. Edits that leave a half-deleted node (dangling reference) are '
                'outside the domain. Known findings F4, F17b, F18b are matched by structural predicates.',
        'technique': SIM + 'seeded operation programs and edit histories (stale/missing markers) on a live object with per-step '
                     'invariants against reference models; minimised replayable traces',
        'design_ref': 'DESIGN.md section 4 (C12)',
    },
    'C05': {
        'text': 'Seeded histories of re-layout operations (reconfigure under every key incl. random drawn from a simulator-owned '
                'PRNG stream, configure+rearrange, encode from another top, adopt, restart) interleaved with reorderings and '
                'marker loss, with content equality after every re-layout and per-node ordering/stability judgement of rearrange. '
                'The PRNG stand-in is a complete random.Random. Every run is also under bounded liveness: a suspected hang (wall clock) is re-executed under a budget of penman line events and only exceeding that logical budget is reported.',
        'note': 'History tier; the PRNG seam (S8) and stale markers (S9) are the only nondeterminism/fault seams in it. Role '
                'alignments are not generated for the ordering clause.',
        'technique': SIM + 'seeded operation histories with a simulator-owned PRNG stream (seeded/constant/decreasing/two-valued) '
                     'and stale-marker faults, content and sort-key reference models',
        'design_ref': 'DESIGN.md section 4 (C05)',
    },
    'C17': {
        'text': '2-4 real caller threads on a shared world of read-only graphs/trees/models/codecs under a seeded baton scheduler '
                '(pre-emption at penman line events): per-operation results must equal a sequential reference execution and '
                'structural digests of every shared object must equal their pristine values at every context switch and after '
                'every operation (copy.deepcopy frames are pre-emptible too in some runs); asynchronous cancellation at sampled '
                '(thorough: every) lines and recursion-limit squeeze with re-issue; pickle, fork and spawn transport with a '
                'reference that never pickles; copied / pickled models must behave like the original; reference and run under '
                'independently chosen log levels; every batch re-executed in fresh interpreters under other hash seeds; '
                '`python -m penman` child processes under two hash seeds. A threaded phase that exceeds its step cap is a '
                'violation. Every run is also under bounded liveness: a suspected hang (wall clock) is re-executed under a budget of penman line events and only exceeding that logical budget is reported.',
        'note': 'Trusts: sys.settrace line events as pre-emption points (stdlib frames atomic), the sequential execution of the '
                'same code as the reference (consistent changes never alarm), CPython 3.12 with the GIL only. In-place operations '
                'are applied only to results a client derived itself; aliased sub-objects (marker lists, Tree.metadata) are not '
                'mutated directly.',
        'technique': SIM + 'baton-passing real threads with sys.settrace pre-emption under a seeded scheduler, injected '
                     'cancellation / recursion exhaustion, pickle-fork-spawn transport, hash-seed replicas, refinement against a '
                     'sequential reference plus argument digests at every context switch',
        'design_ref': 'DESIGN.md section 4 (C17)',
    },
    'C15': {
        'text': 'Seeded histories of |, |=, -, -= (incl. self-application), top assignment and construction on a heap of up to '
                'four graphs with results stored back; every slot (result, operands, bystanders) is compared with a reference '
                'model and queried after a seeded subset of operations; batches are re-executed under other hash seeds and '
                'per-operation digests must agree. Every run is also under bounded liveness: a suspected hang (wall clock) is re-executed under a budget of penman line events and only exceeding that logical budget is reported.',
        'note': 'History tier; hash randomisation is the nondeterminism seam. Markers of common triples, entries of removed '
                'triples and result metadata are unconstrained.',
        'technique': SIM + 'seeded operation histories on an aliasing heap against a reference model, hash-seed replicas in '
                     'fresh interpreters',
        'design_ref': 'DESIGN.md section 4 (C15)',
    },
}

NOT_APPLICABLE = {
    'C01': 'pure function of (tree, formatting options): format/parse have no state, stream, clock, schedule or fault to simulate; deciding it means enumerating inputs (different technique)',
    'C02': 'composition of two pure functions (interpret, configure) of a tree and a model; nothing to schedule, delay, drop or crash',
    'C03': 'pure function of (triple list, top, model); permuting the triple list is an input, not a schedule (exercised incidentally by C06 histories, not claimed)',
    'C04': 'needs an independent reference interpreter compared on all inputs (differential testing); no nondeterminism or fault in it',
    'C07': 'pure synchronous recursive-descent parser over a string; "never a hang" involves no waiting, timers or I/O; input ending early is just another string (stream-level EOF is covered under C09)',
    'C08': 'pure regular-expression scan of one line',
    'C10': 'pure rewrite of one tree',
    'C11': 'composition of two pure functions of (graph, model)',
    'C13': 'equational laws of pure string functions',
    'C14': 'pure functions of a freshly decoded graph',
    'C18': 'pure string functions (quote/evaluate/type)',
    'C19': 'pure parse/format pair on triple conjunctions',
}
PENDING = {}


def main():
    checks = []
    for pid in sorted(CLAIMED):
        c = CLAIMED[pid]
        checks.append({
            'property_id': pid,
            'quick_cmd': f'./vsim check {pid} --tier quick',
            'thorough_cmd': f'./vsim check {pid} --tier thorough',
            'evidence_file': f'evidence/{pid}.json',
            'replay_cmd_template': './vsim replay {path}',
            'engine': 'vsim',
            'level_claimed': {'category': 'exploration', 'text': c['text'], 'design_ref': c['design_ref']},
            'level_note': c['note'],
            'technique': c['technique'],
        })
    na = [{'property_id': k, 'reason': v} for k, v in sorted({**NOT_APPLICABLE, **PENDING}.items())
          if k not in CLAIMED]
    doc = {
        'version': 1,
        'setup_cmd': "/venv/bin/python -B -c \"import sys; sys.path.insert(0, '/repo'); import penman, penman.__main__; print('penman', penman.__version__, 'from', penman.__file__)\" && ./vsim selftest --quick",
        'hooks': {
            'guard': 'PENMAN_VERIF_SIM',
            'enable': 'no hook exists in /repo: every seam is reached from outside (module-level open, penman.model.random, sys.*, sys.settrace); the launcher exports PENMAN_VERIF_SIM=1 but the repository never reads it',
            'baseline_off_cmd': BASELINE,
            'source_commits': [],
            'add_only': True,
        },
        'engines': [{
            'name': 'vsim', 'path': 'sim/', 'serves_properties': sorted(CLAIMED),
            'kind_free_text': 'hand-written deterministic simulator: seeded explicit traces, simulated raw I/O under real io layers, '
                              'in-process CLI harness, baton-passing thread scheduler with sys.settrace pre-emption, cancellation '
                              'injection, pickle/process transport, hash-seed replicas, ddmin minimiser, fresh-interpreter replay',
        }],
        'checks': checks,
        'not_applicable': na,
        'notes': 'Fixes of genuine defects found by the checks are unguarded "fix:" commits in /repo and are listed in '
                 'known_findings.json (status fixed); their minimised traces are kept in regress/ and re-executed by every check.',
    }
    with open(os.path.join(HERE, 'MANIFEST.json'), 'w') as fh:
        json.dump(doc, fh, indent=1)
    print('wrote MANIFEST.json with', len(checks), 'checks,', len(na), 'not applicable')


if __name__ == '__main__':
    main()
