#!/venv/bin/python
"""Regenerate /verif/MANIFEST.json from the table below (run after adding a check)."""
import json, os, sys

HERE = os.path.dirname(os.path.dirname(os.path.abspath(__file__)))
BASELINE = ('cd /repo && /venv/bin/python -m pytest -ra -q -p no:cacheprovider --timeout=900 '
            '--continue-on-collection-errors')

CLAIMED = {
    'C09': {
        'text': 'Seeded simulation of every load/dump entry point over simulated raw devices beneath the real CPython '
                'text/buffer layers: container and line-framing variants, read/write chunking to 1 byte, EINTR, short '
                'writes, EIO / premature EOF / ENOSPC / close errors at sampled (quick) or every (thorough, texts <= 400 B) '
                'byte offset, interleaved lazy decoders. Sampling, not proof.',
        'note': 'Trusts: CPython io stack, my line splitter and tree writer (independent of penman), penman.loads of the '
                'same text as the reference meaning. Round-trip equality is top + triple multiset + ordered metadata.',
        'technique': 'deterministic simulation with fault injection: simulated raw I/O devices (chunking, EINTR, EIO, EOF, ENOSPC) '
                     'under real io layers, seeded framing/container/fault plans, ddmin-minimised replayable traces',
        'design_ref': 'DESIGN.md section 4 (C09)',
    },
}

NOT_APPLICABLE = {
    'C01': 'pure function of (tree, formatting options): format/parse have no state, stream, clock, schedule or fault to simulate; deciding it means enumerating inputs (different technique)',
    'C02': 'composition of two pure functions (interpret, configure) of a tree and a model; nothing to schedule, delay, drop or crash',
    'C03': 'pure function of (triple list, top, model); permuting the triple list is an input, not a schedule (exercised incidentally by C06 histories, not claimed)',
    'C04': 'needs an independent reference interpreter compared on all inputs (differential testing); no nondeterminism or fault in it',
    'C07': 'pure synchronous recursive-descent parser over a string; "never a hang" involves no waiting, timers or I/O; input ending early is just another string (stream-level EOF is covered under C09)',
    'C08': 'pure regular-expression scan of one line',
    'C10': 'pure rewrite of one tree',
    'C11': 'composition of two pure functions of (graph, model)',
    'C13': 'equational laws of pure string functions',
    'C14': 'pure functions of a freshly decoded graph',
    'C18': 'pure string functions (quote/evaluate/type)',
    'C19': 'pure parse/format pair on triple conjunctions',
}
PENDING = {k: 'check under construction in this round (will be claimed; see DESIGN.md section 4)' for k in ['C17']}


def main():
    checks = []
    for pid in sorted(CLAIMED):
        c = CLAIMED[pid]
        checks.append({
            'property_id': pid,
            'quick_cmd': f'./vsim check {pid} --tier quick',
            'thorough_cmd': f'./vsim check {pid} --tier thorough',
            'evidence_file': f'evidence/{pid}.json',
            'replay_cmd_template': './vsim replay {path}',
            'engine': 'vsim',
            'level_claimed': {'category': 'exploration', 'text': c['text'], 'design_ref': c['design_ref']},
            'level_note': c['note'],
            'technique': c['technique'],
        })
    na = [{'property_id': k, 'reason': v} for k, v in sorted({**NOT_APPLICABLE, **PENDING}.items())
          if k not in CLAIMED]
    doc = {
        'version': 1,
        'setup_cmd': "/venv/bin/python -B -c \"import sys; sys.path.insert(0, '/repo'); import penman, penman.__main__; print('penman', penman.__version__, 'from', penman.__file__)\" && ./vsim selftest --quick",
        'hooks': {
            'guard': 'PENMAN_VERIF_SIM',
            'enable': 'no hook exists in /repo: every seam is reached from outside (module-level open, penman.model.random, sys.*, sys.settrace); the launcher exports PENMAN_VERIF_SIM=1 but the repository never reads it',
            'baseline_off_cmd': BASELINE,
            'source_commits': [],
            'add_only': True,
        },
        'engines': [{
            'name': 'vsim', 'path': 'sim/', 'serves_properties': sorted(CLAIMED),
            'kind_free_text': 'hand-written deterministic simulator: seeded explicit traces, simulated raw I/O under real io layers, '
                              'in-process CLI harness, baton-passing thread scheduler with sys.settrace pre-emption, cancellation '
                              'injection, pickle/process transport, hash-seed replicas, ddmin minimiser, fresh-interpreter replay',
        }],
        'checks': checks,
        'not_applicable': na,
        'notes': 'Fixes of genuine defects found by the checks are unguarded "fix:" commits in /repo and are listed in '
                 'known_findings.json (status fixed); their minimised traces are kept in regress/ and re-executed by every check.',
    }
    with open(os.path.join(HERE, 'MANIFEST.json'), 'w') as fh:
        json.dump(doc, fh, indent=1)
    print('wrote MANIFEST.json with', len(checks), 'checks,', len(na), 'not applicable')


if __name__ == '__main__':
    main()
