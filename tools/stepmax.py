#!/venv/bin/python
"""Calibrate the logical-time budget of sim/core/runner.py (STEP_BUDGET): the largest number of penman line
events the main thread executes in one run, per property, over a sample of planned runs of a tier.

  tools/stepmax.py [--tier quick|thorough] [--n 3000] [--stride 7] [PROPS...]

Prints, per property, the maximum, the 99.9th percentile and the wall time of the slowest run.
Runs 16 processes; nothing is written."""
import argparse
import os
import sys
import time
from concurrent.futures import ProcessPoolExecutor

sys.path.insert(0, os.path.dirname(os.path.dirname(os.path.abspath(__file__))))


def part(args):
    pid, tier, seed, idxs = args
    from sim.core import env
    env.setup()
    from sim.core import runner, stall
    prop = runner.load_prop(pid)
    out = []
    for idx in idxs:
        trace = runner.plan_run(prop, seed, tier, idx)
        sb = stall.StepBudget(None)
        t0 = time.time()
        with sb:
            prop.execute(trace)
        out.append((sb.steps, round(time.time() - t0, 2), idx))
    return out


def main():
    ap = argparse.ArgumentParser()
    ap.add_argument('--tier', default='quick')
    ap.add_argument('--n', type=int, default=3000)
    ap.add_argument('--stride', type=int, default=7)
    ap.add_argument('--seed', type=int, default=20261001)
    ap.add_argument('props', nargs='*')
    a = ap.parse_args()
    props = a.props or ['C05', 'C06', 'C09', 'C12', 'C15', 'C16', 'C17', 'C20']
    with ProcessPoolExecutor(16) as ex:
        for pid in props:
            idxs = [i * a.stride for i in range(a.n)]
            res = []
            for r in ex.map(part, [(pid, a.tier, a.seed, idxs[w::16]) for w in range(16)]):
                res.extend(r)
            res.sort()
            mx = res[-1]
            p999 = res[int(len(res) * 0.999) - 1]
            slow = max(res, key=lambda r: r[1])
            print(f'{pid} tier={a.tier} n={len(res)} max_steps={mx[0]} (run {mx[2]}, {mx[1]} s) p99.9={p999[0]} '
                  f'slowest_run={slow[1]} s (run {slow[2]}, {slow[0]} steps)', flush=True)


if __name__ == '__main__':
    main()
