#!/bin/bash
# No alarm where the property holds: applies tools/harmless_refactoring.diff (behaviour-preserving changes that
# route around the simulator's seams: pathlib / io.open instead of open, `from random import random`,
# write() instead of print(), list.sort instead of sorted, a precompiled regex) to a scratch worktree, runs the
# pinned suite and every quick check against it; every check must exit 0.
wt=/tmp/vsim-silence-wt
git -C /repo worktree remove --force $wt 2>/dev/null; rm -rf $wt
git -C /repo worktree add -q --detach $wt HEAD || exit 2
git -C $wt apply /verif/tools/harmless_refactoring.diff || exit 2
(cd $wt && PYTHONPATH=$wt /venv/bin/python -m pytest -q -p no:cacheprovider 2>&1 | tail -1)
rc=0
for p in C05 C06 C09 C12 C15 C16 C17 C20; do
  VERIF_REPO=$wt /verif/vsim check $p --tier quick > /tmp/silence_$p.log 2>&1; e=$?
  grep -E "^(RESULT|VIOLATION|HARNESS)" /tmp/silence_$p.log | cut -c1-200
  [ $e -ne 0 ] && rc=1
done
git -C /repo worktree remove --force $wt; rm -rf /verif/evidence-scratch; git -C /verif clean -fdq replays
echo "silence rc=$rc"; exit $rc
