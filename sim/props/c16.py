"""C16 - model checking is sound and complete; --check reports it in the exit status.

Simulated: the process boundary of the `penman` command (argv, stdin, FILE...
in order, stdout, exit status kept across files) over SimFS, with the stream
framing/chunking faults of C09.  Oracle: an independent role-membership
reference decides the offending triples per graph.
"""

import os
import re
import shutil
import tempfile

from ..core import digest
from ..core.minimise import list_candidates, with_path
from ..core.result import RunResult
from ..core.rng import Rng
from ..gen import content as gcontent
from ..gen import models as gmodels
from ..gen import text as gtext
from ..ref import cli_pipeline, splitter
from ..ref.roles import model_ref
from ..ref import errors as referrors
from ..seams import cli, simio
from .c09 import io_plan, _tree_simplifications, _drop_branch

ID = 'C16'
HASHSEED_IS_VIOLATION = False

TIERS = {
    'quick': {'runs': 36000, 'replica_runs': 400, 'hash_seeds': [1, 4242], 'timeout_s': 1200, 'shrink_s': 40},
    'thorough': {'runs': 200000, 'replica_runs': 2000, 'hash_seeds': [1, 7, 99, 4242, 31337],
                 'timeout_s': 9000, 'shrink_s': 120},
}

RULE = ('Each run plans one invocation history of the real main(): a model (AMR / default / custom JSON via '
        '--model / no-op), --check on (90%) or off, 1-4 sources (stdin, or 1-4 simulated files, possibly the '
        'same file twice) each with 0-3 generated graphs, a seeded subset of which carry roles outside the '
        'model at known triples (plain, inverted once or twice, roles ending in -of by definition, near-misses of '
        'pattern roles); framing, chunking, EINTR and short-write plans as in C09; formatting, --triples and '
        'verbosity as swarm knobs; a sample also runs as a real `python -m penman` subprocess on real scratch '
        'files. A second kind of run is a graph-lifecycle history (edits that disconnect, empty or re-top a Graph) '
        'observed through Model.errors and compared with a union-find reference. distinct_nontrivial counts '
        'distinct (model kind, per-source pattern of compliant/non-compliant graphs, stdin-or-files, check flag, '
        'triples flag, newline style) tuples with at least two graphs or a non-compliant graph.')

REAL_VS_STUB = {
    'real': ['penman.__main__.main (argparse, logging set-up, process loop, _check, sys.exit)',
             'all of penman behind it', 'CPython io text/buffer layers on stdin, files and stdout',
             'python -m penman child processes on real scratch files for a sample of runs'],
    'simulated': ['sys.argv, stdin, stdout, stderr endpoints and raw devices', 'file namespace (SimFS) behind '
                  'penman.__main__.open and argparse.open', 'the reference for role membership and reachability'],
}
ASSUMPTIONS = [
    'Role membership reference: a role is defined when it fully matches a role pattern of the model, its top role or '
    'its concept role, directly or after removing one trailing "-of".',
    'Model.errors on arbitrary triple lists is only sampled through lifecycle histories (not enumerated); observer '
    'graphs never use a variable name as a concept.',
    'Inputs to the tool are well-formed graphs; no simulated time (penman has no clock).',
]
PROBES = ['quiet', 'bad_first_source_good_last', 'bad_last_source', 'bad_middle', 'same_file_twice', 'stdin_input',
          'multi_file', 'empty_source', 'no_check_control', 'triples_mode', 'inverted_bad_role',
          'role_ending_in_of_defined', 'subprocess_crosscheck', 'errors_unreachable', 'errors_empty',
          'errors_top_not_variable', 'duplicate_offending_triple']

# unusual but legal notation: the concept role written as an ordinary (inverted) relation, a top node
# without a concept whose relations are all inverted, an empty-concept slot
EXOTIC_TREES = [
    ['a', [[':instance-of', ['b', [['/', 'beta']]]]]],
    ['a', [[':instance-of', ['b', [['/', 'beta']]]], [':ARG0-of', ['c', [['/', 'go-01']]]]]],
    ['a', [['/', None], [':ARG0-of', ['b', [['/', 'beta']]]]]],
    ['a', [[':ARG1-of', ['b', [[':ARG0-of', ['c', []]]]]]]],
    # an empty node as the target of a relation: (a / alpha :ARG0 ()) reads as (a :ARG0 None), (None :instance None)
    ['a', [['/', 'alpha'], [':ARG0', [None, []]]]],
    ['a', [['/', 'alpha'], [':ARG0', [None, []]], [':ARG1', ['b', [['/', 'beta']]]]]],
]

ERR_RE = re.compile(r'^# ::error-(\d+) (.*)$')
ERR_ANY = re.compile(r'^# ::error-(\d+)(?: (.*))?$')


def plan(rng, idx, tier):
    if rng.sub('kind').chance(0.2):
        return plan_lifecycle(rng, idx)
    spec = rng.weighted([(gmodels.AMR, 5), (gmodels.DEFAULT, 1), (gmodels.custom(idx), 3), (gmodels.NOOP, 1),
                         (gmodels.OWN_CONCEPT_ROLE, 0.5)])
    nsrc = rng.weighted([(1, 3), (2, 4), (3, 3), (4, 1)])
    # balance where the first non-compliant graph sits
    bad_src = set()
    pat = rng.sub('pat').weighted([('none', 2), ('first', 3), ('last', 2), ('middle', 1), ('random', 2), ('all', 1)])
    for i in range(nsrc):
        if pat == 'all' or (pat == 'first' and i == 0) or (pat == 'last' and i == nsrc - 1) \
                or (pat == 'middle' and 0 < i < nsrc - 1) or (pat == 'random' and rng.sub('b', i).chance(0.5)):
            bad_src.add(i)
    sources = []
    for i in range(nsrc):
        r = rng.sub('src', i)
        ng = r.weighted([(0, 1), (1, 5), (2, 3), (3, 1)])
        all_bad = False
        if idx % 500 == 250 and i == 0:
            ng = r.sub('many').pick([130, 256, 300, 512, 900])      # thresholds in the number of graphs / of bad graphs
            all_bad = ng in (256, 512)      # exactly 256 / 512 offending graphs: an exit status is eight bits wide
            if all_bad:
                bad_src.clear()           # the other inputs stay compliant: the total is exactly 256 or 512
                bad_src.add(i)
        graphs = []
        bad_at = r.randrange(ng) if (i in bad_src and ng) else None
        for j in range(ng):
            gr = r.sub('g', j)
            bad = (j == bad_at) or (i in bad_src and gr.chance(0.3)) or all_bad
            ccfg = gcontent.ContentCfg(max_nodes=gr.weighted([(1, 3), (2, 3), (3, 3), (4, 3), (9, 1)]),
                                       invalid_roles=(gr.pick([0.3, 0.6, 1.0]) if bad else 0.0),
                                       p_inverted_attr=0.05,
                                       extra_edge_roles=[gmodels.top_role(spec)] if gr.chance(0.3) else [])
            c = gcontent.gen_content(gr, spec, ccfg)
            tree = gcontent.layout_tree(gr.sub('layout'), c, spec, gcontent.LayoutCfg(p_align=gr.pick([0, 0, 0.3])))
            if all_bad:
                # every one of these graphs has an offending triple for certain
                tree = ['a', [['/', 'alpha'], [(gmodels.invalid_roles(spec) or [':zzz'])[0], str(j)]]]
            if bad and gr.chance(0.15):
                # the same offending triple written twice (a duplicate in the triple list)
                _duplicate_bad_branch(tree, spec)
            meta = gtext.gen_metadata(gr.sub('meta'), p_any=0.4)
            sr = gr.sub('stale')
            if sr.chance(0.08):
                # the input was checked before (`penman --check | penman --check`, or an edited earlier report):
                # it already carries error-N metadata, in any order and with gaps
                stale = sr.sample([['error-1', '(x :was y) invalid role'], ['error-2', 'an older report'],
                                   ['error-3', ''], ['error-7', 'kept from before']], 1 + sr.randrange(3))
                pos = sr.randrange(len(meta) + 1)
                meta = meta[:pos] + stale + meta[pos:]
            graphs.append({'tree': tree, 'meta': meta})
        if r.chance(0.04):
            graphs.append({'tree': r.pick(EXOTIC_TREES), 'meta': []})
        src_ = {'graphs': graphs}
        if r.sub('trailer').chance(0.06):
            src_['trailer'] = r.sub('trailer2').pick(['</doc>\n', 'EOF\n', ')\n', 'end of file', '</doc>\n(x / ignored)\n'])
        sources.append(src_)
    srng = rng.sub('style')
    use_stdin = nsrc == 1 and srng.chance(0.5)
    order = list(range(nsrc))
    if not use_stdin and nsrc >= 1 and srng.chance(0.2):
        order.append(srng.randrange(nsrc))      # the same file given twice
    if srng.chance(0.4):
        srng.shuffle(order)
    opts = {'check': not srng.chance(0.1), 'indent': srng.pick([-1, -1, -1, None, 0, 2, 3]),
            'compact': srng.chance(0.2), 'triples': srng.chance(0.12),
            'verbosity': srng.weighted([(0, 8), (1, 1), (2, 1), (3, 1)])}
    if srng.chance(0.06):
        opts['quiet'] = True
    if srng.chance(0.15):
        opts['canonicalize_roles'] = True
    if spec['kind'] in ('amr', 'custom') and srng.chance(0.1):
        opts['reify_edges'] = True
    return {
        'property': ID, 'kind': 'cli', 'model': spec, 'sources': sources, 'order': order,
        'stdin': use_stdin, 'options': opts,
        'style': {'nl': srng.chance(0.5), 'indent': srng.pick([0, 2, 3]),
                  'sep': srng.weighted([('blank', 4), ('newline', 3), ('space', 2)]),
                  'final_newline': srng.chance(0.8), 'meta_gap': rng.sub('gap').chance(0.12), 'inner_blank': rng.sub('gap2').chance(0.12)},
        'newline': srng.weighted([('LF', 5), ('CRLF', 2), ('CR', 1), ('mixed', 1)]),
        'mixseed': srng.randrange(1 << 30),
        'read_plan': io_plan(rng.sub('rio'), rng.sub('rio?').chance(0.5)),
        'write_plan': io_plan(rng.sub('wio'), rng.sub('wio?').chance(0.5)),
        'subprocess': (idx % 400 == 7),
    }


def _duplicate_bad_branch(tree, spec):
    mref = model_ref(spec)
    var, branches = tree
    for role, tgt in list(branches):
        base = role.split('~')[0]
        if role != '/' and not isinstance(tgt, list) and not mref.has_role(base):
            branches.append([role, tgt])
            return


# --------------------------------------------------------------------------

def source_text(trace, i):
    src = trace['sources'][i]
    t = gtext.build_text(src['graphs'], trace['style'])
    if src.get('trailer'):
        # stray text after the last graph of a file (a closing tag, a surplus parenthesis): the tool stops reading
        # *that* input there and goes on with the next one
        t = (t if t.endswith('\n') or not t else t + '\n') + src['trailer']
    nl = trace['newline']
    if trace.get('stdin') and nl not in ('LF', 'CRLF'):
        nl = 'CRLF'     # a POSIX stdin frames lines at LF only; bare CR is not a terminator there
    return gtext.apply_newlines(t, nl, Rng(trace.get('mixseed', 0) + i))


def execute(trace):
    if trace.get('kind') == 'lifecycle':
        return execute_lifecycle(trace)
    import penman
    res = RunResult()
    k = simio.Counters()
    spec = trace['model']
    model = gmodels.make_model(spec)
    mref = model_ref(spec)
    opts = dict(trace['options'])
    texts = [source_text(trace, i) for i in range(len(trace['sources']))]
    order = [i for i in trace['order'] if i < len(texts)]
    if not order:
        order = list(range(len(texts)))
    argv = gmodels.cli_args(spec, '/sim/model.json') + cli_pipeline.cli_args(opts)
    if opts.get('quiet'):
        argv.append('-q' if trace.get('mixseed', 0) % 2 else '--quiet')
        res.hit('probe.quiet')
    files = {}
    plans = {}
    if spec['kind'] == 'custom':
        import json
        files['/sim/model.json'] = json.dumps(spec['spec'], ensure_ascii=False).encode('utf-8')
    stdin_bytes = b''
    if trace.get('stdin') and len(order) == 1:
        stdin_bytes = texts[order[0]].encode('utf-8')
        res.hit('probe.stdin_input')
    else:
        for i in order:
            files[f'/sim/in{i}.penman'] = texts[i].encode('utf-8')
            plans[f'/sim/in{i}.penman'] = trace.get('read_plan')
        argv += [f'/sim/in{i}.penman' for i in order]
        if len(order) > 1:
            res.hit('probe.multi_file')
        if len(set(order)) < len(order):
            res.hit('probe.same_file_twice')
    r = cli.run_cli(argv, stdin_bytes=stdin_bytes, files=files, plans=plans,
                    stdin_plan=trace.get('read_plan'), stdout_plan=trace.get('write_plan'), counters=k,
                    text_chunk=(trace.get('read_plan') or {}).get('text_chunk'))
    res.event('cli', argv, r.exit, digest.sha(r.stdout), digest.canon_exc(r.exc) if r.exc else None)

    # expected, per graph in command-line order ----------------------------------
    seq = [texts[i] for i in order]
    expected = []       # list of sets of offending triple strings
    pattern = []
    ref_ok = True
    try:
        graphs = cli_pipeline.run(seq, model, {kk: v for kk, v in opts.items()
                                                if kk in ('canonicalize_roles', 'reify_edges', 'triples')})
    except Exception as e:   # the library pipeline itself failed: nothing to compare with
        graphs = []
        ref_ok = False
        res.event('ref-failed', digest.canon_exc(e))
    per_source = []
    for text in seq:
        try:
            n = len(list(penman.iterparse(text)))
        except Exception:
            n = 0
        per_source.append(n)
    for _, g in graphs:
        off = []
        seen = set()
        for t in g.triples:
            role = t[1]
            if not mref.has_role(role):
                s = '({}) invalid role'.format(' '.join(map(str, t)))
                if s in seen:
                    res.hit('probe.duplicate_offending_triple')
                seen.add(s)
                off.append(s)
                if role.endswith('-of'):
                    res.hit('probe.inverted_bad_role')
            elif role.endswith('-of') and mref.defined(role):
                res.hit('probe.role_ending_in_of_defined')
        expected.append(sorted(set(off)))
    any_bad = any(expected)
    if any(n == 0 for n in per_source):
        res.hit('probe.empty_source')
    # which sources are bad
    pos = 0
    src_bad = []
    for n in per_source:
        src_bad.append(any(expected[pos:pos + n]))
        pos += n
    if len(src_bad) > 1:
        if src_bad[0] and not src_bad[-1]:
            res.hit('probe.bad_first_source_good_last')
        if src_bad[-1]:
            res.hit('probe.bad_last_source')
        if any(src_bad[1:-1]) and not src_bad[-1]:
            res.hit('probe.bad_middle')
    if not opts.get('check'):
        res.hit('probe.no_check_control')
    if opts.get('triples'):
        res.hit('probe.triples_mode')

    detail = {'argv': argv, 'sources': seq, 'stdout': r.stdout[:4000], 'stderr': r.stderr[-1500:]}
    if not ref_ok:
        pass
    elif r.exc is not None:
        res.violate('cli', 'exception-escaped-main', error=digest.canon_exc(r.exc), **detail)
    else:
        want_exit = 1 if (opts.get('check') and any_bad) else 0
        # "exits non-zero exactly when ...": which non-zero value is not the statement's business
        if (r.exit != 0) != (want_exit != 0):
            res.violate('exit', 'exit-status-wrong', expected=want_exit, got=r.exit,
                        offending=expected, **detail)
        if r.stdout_error is not None:
            res.violate('cli', 'stdout-error', error=digest.canon_exc(r.stdout_error), **detail)
        elif opts.get('quiet'):
            if r.stdout != '':
                res.violate('output', 'quiet-wrote-to-stdout', **detail)
        elif not opts.get('triples'):
            blocks, seps, tail, problems = splitter.split_blocks(r.stdout)
            ngen = sum(len(trace['sources'][i]['graphs']) for i in order)
            if len(blocks) != ngen:
                res.violate('output', 'not-one-output-graph-per-input-graph', input_graphs=ngen,
                            output_graphs=len(blocks), **detail)
            elif problems or len(blocks) != len(expected):
                res.violate('output', 'graph-count-or-shape', problems=problems, blocks=len(blocks),
                            expected_graphs=len(expected), **detail)
            else:
                metas = [g_.get('meta') or [] for i in order for g_ in trace['sources'][i]['graphs']]
                for bi, (b, want) in enumerate(zip(blocks, expected)):
                    stale = {}
                    if bi < len(metas):
                        for key, val in metas[bi]:
                            if key.startswith('error-') and key[6:].isdigit():
                                stale[int(key[6:])] = val
                    if stale:
                        res.hit('probe.input_already_has_error_metadata')
                    lines = {}
                    nums = []
                    for line in b['comments']:
                        m = ERR_ANY.match(line)
                        if m:
                            nums.append(int(m.group(1)))
                            lines[int(m.group(1))] = m.group(2) or ''
                    if not opts.get('check'):
                        want = []
                    k_ = len(want)
                    # error-1 .. error-k report the k offending triples (whatever the input carried under those
                    # keys); keys above k are the input's own metadata, untouched
                    got = [lines[n] for n in sorted(lines) if n <= k_]
                    rest = {n: v for n, v in lines.items() if n > k_}
                    want_rest = {n: v for n, v in stale.items() if n > k_}
                    if sorted(got) != sorted(want) or len(nums) != len(set(nums)):
                        res.violate('errors', 'offending-triples-mismatch', graph=bi, expected=sorted(want),
                                    got=sorted(got), error_lines=lines, **detail)
                        break
                    if rest != want_rest:
                        res.violate('errors', 'other-error-metadata-changed', graph=bi, expected=want_rest, got=rest,
                                    **detail)
                        break
                    if not stale and nums != list(range(1, len(nums) + 1)):
                        res.violate('errors', 'error-numbering', graph=bi, numbers=nums, **detail)
                        break
                    bad_msgs = [g_ for g_ in got if not g_.endswith(') invalid role')]
                    if bad_msgs:
                        res.violate('errors', 'non-role-error-on-decoded-graph', graph=bi, messages=bad_msgs,
                                    **detail)
                        break
    if trace.get('subprocess') and ref_ok and not opts.get('quiet'):
        subprocess_crosscheck(trace, spec, argv, texts, order, stdin_bytes, r, res)
    for name, n in k.c.items():
        res.hit(name, n)
    res.hit('step.invocations')
    res.hit('step.graphs', len(expected))
    if len(expected) >= 2 or any_bad:
        res.cover.add(digest.dumps([spec['kind'], [[bool(x) for x in expected[sum(per_source[:i]):sum(per_source[:i + 1])]]
                                                   for i in range(len(per_source))],
                                    bool(trace.get('stdin')), bool(opts.get('check')), bool(opts.get('triples')),
                                    trace['newline']]))
    return res


def subprocess_crosscheck(trace, spec, argv, texts, order, stdin_bytes, r, res):
    """The same invocation as a real child process on real scratch files."""
    import json
    d = tempfile.mkdtemp(prefix='vsim-c16-')
    try:
        real = []
        for a in argv:
            if a.startswith('/sim/'):
                real.append(os.path.join(d, a[5:]))
            else:
                real.append(a)
        if spec['kind'] == 'custom':
            with open(os.path.join(d, 'model.json'), 'w', encoding='utf-8') as fh:
                json.dump(spec['spec'], fh, ensure_ascii=False)
        for i in set(order):
            with open(os.path.join(d, f'in{i}.penman'), 'wb') as fh:
                fh.write(texts[i].encode('utf-8'))
        code, out, err = cli.run_subprocess(real + ['--encoding', 'utf-8'], stdin_bytes=stdin_bytes, cwd=d)
        res.hit('probe.subprocess_crosscheck')
        res.event('subprocess', code, digest.sha(out.hex()))
        if r.exc is None and (code != r.exit or out != r.stdout_bytes):
            res.violate('subprocess', 'in-process-vs-subprocess-differ', argv=argv, exit=[r.exit, code],
                        stdout=[r.stdout[:2000], out.decode('utf-8', 'replace')[:2000]],
                        stderr=err.decode('utf-8', 'replace')[-1500:])
    finally:
        shutil.rmtree(d, ignore_errors=True)


# --------------------------------------------------------------------------
# lifecycle observer for Model.errors

EDITS = ['add_island', 'remove_bridge', 'clear', 'set_top_foreign', 'set_top_none', 'shuffle',
         'add_bad_role', 'add_edge', 'observe',
         # unusual but legal triple lists (the statement quantifies over all triple lists x tops)
         'add_self_loop', 'dup_triple', 'add_inverted_edge', 'add_double_inverted', 'set_top_falsy', 'set_top_target_only',
         'add_island_cycle', 'add_top_role_triple', 'add_role_without_colon', 'remove_instance', 'bridge_islands']


def plan_lifecycle(rng, idx):
    spec = rng.weighted([(gmodels.AMR, 4), (gmodels.DEFAULT, 2), (gmodels.custom(idx), 3)])
    c = gcontent.gen_content(rng.sub('c'), spec, gcontent.ContentCfg(max_nodes=rng.pick([1, 2, 3, 5]),
                                                                      invalid_roles=rng.pick([0, 0, 0.2])))
    vs = {t[0] for t in c['triples']}
    for t in c['triples']:
        if t[1] == ':instance' and t[2] in vs:
            t[2] = str(t[2]) + '-concept'     # never a variable name as a concept (see ASSUMPTIONS)
    ops = []
    orng = rng.sub('ops')
    for i in range(1 + orng.randrange(6)):
        ops.append({'op': orng.pick(EDITS), 'a': orng.randrange(1000), 'b': orng.randrange(1000)})
    return {'property': ID, 'kind': 'lifecycle', 'model': spec, 'content': c, 'ops': ops}


def execute_lifecycle(trace):
    from penman.graph import Graph
    res = RunResult()
    spec = trace['model']
    model = gmodels.make_model(spec)
    mref = model_ref(spec)
    c = trace['content']
    triples = [tuple(t) for t in c['triples']]
    top = c['top']
    g = Graph(triples, top=top)
    bad_roles = gmodels.invalid_roles(spec) or [':zzz']
    edge_roles, _ = gmodels.inventory(spec)
    kinds = set()

    def observe(tag):
        want = referrors.ref_errors(list(g.triples), g._top, mref)
        try:
            got = model.errors(g)
        except Exception as e:
            res.violate('errors', 'errors-raised', error=digest.canon_exc(e), triples=list(g.triples), top=g._top)
            return
        gotc = referrors.canon_errors(got)
        res.event(tag, digest.sha(gotc))
        for msgs in want.values():
            for m in msgs:
                kinds.add(m)
        if gotc != referrors.canon_errors(want):
            res.violate('errors', 'report-differs-from-reference', triples=[list(t) for t in g.triples],
                        top=g._top, expected=referrors.canon_errors(want), got=gotc, model=spec['kind'])

    observe('initial')
    fresh = 0
    for op in trace['ops']:
        name, a, b = op['op'], op.get('a', 0), op.get('b', 0)
        vs = sorted({t[0] for t in g.triples}, key=str)
        if name == 'add_island':
            fresh += 1
            v = f'q{fresh}'
            g.triples.append((v, ':instance', 'island'))
            if a % 2:
                g.triples.append((v, edge_roles[b % len(edge_roles)], 'const'))
        elif name == 'remove_bridge':
            edges = [t for t in g.triples if t[1] != ':instance' and t[2] in set(vs)]
            if edges:
                g.triples.remove(edges[a % len(edges)])
        elif name == 'clear':
            del g.triples[:]
        elif name == 'set_top_foreign':
            g._top = 'nowhere'
        elif name == 'set_top_none':
            g._top = None
        elif name == 'shuffle':
            Rng(a).shuffle(g.triples)
        elif name == 'add_bad_role':
            if vs:
                g.triples.append((vs[a % len(vs)], bad_roles[b % len(bad_roles)], 'k'))
        elif name == 'add_edge':
            if len(vs) >= 1:
                g.triples.append((vs[a % len(vs)], edge_roles[b % len(edge_roles)], vs[b % len(vs)]))
        elif name == 'add_self_loop':
            if vs:
                v = vs[a % len(vs)]
                g.triples.append((v, edge_roles[b % len(edge_roles)], v))
        elif name == 'dup_triple':
            if g.triples:
                g.triples.insert(b % (len(g.triples) + 1), g.triples[a % len(g.triples)])
        elif name == 'add_inverted_edge':
            # a role written inverted in the triple itself (hand-built graphs are not deinverted)
            if vs:
                g.triples.append((vs[a % len(vs)], edge_roles[b % len(edge_roles)] + '-of', vs[(a + b) % len(vs)]))
        elif name == 'add_double_inverted':
            if vs:
                g.triples.append((vs[a % len(vs)], edge_roles[b % len(edge_roles)] + '-of-of', vs[(a + b) % len(vs)]))
        elif name == 'set_top_falsy':
            g._top = ['', 0, False][a % 3]
        elif name == 'set_top_target_only':
            consts = [t[2] for t in g.triples if t[1] != ':instance' and t[2] not in set(vs) and isinstance(t[2], str)]
            if consts:
                g._top = consts[a % len(consts)]
        elif name == 'add_island_cycle':
            # a disconnected component in which every node has a parent
            fresh += 1
            v1, v2 = f'q{fresh}', f'q{fresh}b'
            r = edge_roles[b % len(edge_roles)]
            g.triples += [(v1, ':instance', 'island'), (v2, ':instance', 'island'), (v1, r, v2), (v2, r, v1)]
        elif name == 'add_top_role_triple':
            if vs:
                g.triples.append((vs[a % len(vs)], mref.top_role, vs[b % len(vs)]))
        elif name == 'add_role_without_colon':
            if vs:
                g.triples.append((vs[a % len(vs)], edge_roles[b % len(edge_roles)].lstrip(':'), 'k'))
        elif name == 'remove_instance':
            inst = [t for t in g.triples if t[1] == ':instance']
            if inst:
                g.triples.remove(inst[a % len(inst)])
        elif name == 'bridge_islands':
            # connect the first unreachable-looking source to the top by an edge written from the island
            if len(vs) >= 2:
                g.triples.append((vs[-1 - a % (len(vs) - 1)], edge_roles[b % len(edge_roles)], vs[0]))
        observe(name)
    if 'unreachable' in kinds:
        res.hit('probe.errors_unreachable')
    if 'graph is empty' in kinds:
        res.hit('probe.errors_empty')
    if 'top is not a variable in the graph' in kinds:
        res.hit('probe.errors_top_not_variable')
    res.hit('step.operations', len(trace['ops']) + 1)
    if kinds - {'invalid role'}:
        res.cover.add(digest.dumps(['lifecycle', spec['kind'], sorted(kinds), [o['op'] for o in trace['ops']]]))
    return res


# --------------------------------------------------------------------------

def shrink(trace):
    if trace.get('kind') == 'lifecycle':
        yield from list_candidates(trace, ['ops'])
        yield from list_candidates(trace, ['content', 'triples'])
        return
    yield from list_candidates(trace, ['order'])
    for si, src in enumerate(trace['sources']):
        yield from list_candidates(trace, ['sources', si, 'graphs'])
    for si, src in enumerate(trace['sources']):
        for gi, g in enumerate(src['graphs']):
            if g.get('meta'):
                yield with_path(trace, ['sources', si, 'graphs', gi, 'meta'], [])
            for path, i in _tree_simplifications(g['tree']):
                yield with_path(trace, ['sources', si, 'graphs', gi, 'tree'], _drop_branch(g['tree'], path, i))
    base = {'check': trace['options'].get('check', False), 'indent': -1}
    if trace['options'] != base:
        yield with_path(trace, ['options'], base)
        for key in list(trace['options']):
            if key != 'check' and trace['options'][key] != base.get(key):
                o = dict(trace['options'])
                o.pop(key)
                yield with_path(trace, ['options'], o)
    if trace.get('newline') != 'LF':
        yield with_path(trace, ['newline'], 'LF')
    simple_style = {'nl': False, 'indent': 3, 'sep': 'blank', 'final_newline': True}
    if trace.get('style') != simple_style:
        yield with_path(trace, ['style'], simple_style)
    benign = {'chunks': [4096], 'buffer_size': 8192, 'text_chunk': 8192}
    for key in ('read_plan', 'write_plan'):
        if trace.get(key) != benign:
            yield with_path(trace, [key], benign)
    if trace.get('subprocess'):
        yield with_path(trace, ['subprocess'], False)


KNOWN = {}
