"""The life of one Graph object: start states, fault / edit operations on the
stored epigraph and triple log (seam S9), a line-step budget for bounded
liveness, and reference computations shared by C05, C06 and C12.

All operations take small integer arguments that are reduced modulo the
current sizes, so any sub-sequence of a history is still runnable (ddmin).
Edits are applied by this module directly to ``g.triples`` / ``g.epidata``
(what a user's code does), never through penman functions under test.
"""

import sys

from ..core import env
from ..core.rng import Rng
from ..gen import content as gcontent
from ..gen import text as gtext
from ..ref import content as rcontent


from ..core.stall import BudgetExceeded, StepBudget  # noqa: E402,F401  (re-exported: lc.StepBudget)


def pyconst(x, mode):
    """Written constant -> Python value a programmer would put in a hand-built graph."""
    if not isinstance(x, str) or mode == 0:
        return x
    try:
        if x.lstrip('-').isdigit():
            return int(x)
        if mode == 2:
            return float(x)
    except ValueError:
        pass
    return x


def make_start(start, model):
    """Build the start Graph of a history."""
    import penman
    from penman.graph import Graph
    kind = start['kind']
    if kind == 'deep_chain':
        # n node contexts nested through valid markers (n stays below the 200 levels penman supports)
        n = int(start['n'])
        text = ''.join(f'(x{i} / c{i % 3} :ARG{i % 2} ' for i in range(1, n)) + f'(x{n} / leaf)' + ')' * (n - 1)
        return penman.decode(text, model=model)
    if kind == 'wide_node':
        # one node with n branches: nested leaves, references back to them, attributes, and concepts spelled like
        # variables of the same graph
        n = int(start['n'])
        parts = []
        for i in range(1, n + 1):
            if i % 4 == 1:
                parts.append(f':op{i} (l{i} / {"l" + str(i - 4) if i > 4 and i % 8 == 1 else "leaf"})')
            elif i % 4 == 2:
                parts.append(f':op{i} l{i - 1}')
            elif i % 4 == 3:
                parts.append(f':mod{i} "v{i}"')
            else:
                parts.append(f':ARG{i % 3}-of (m{i} / mid :op1 l{i - 3})')
        text = '(t / ' + ('l1' if start.get('clash') else 'top') + ' ' + ' '.join(parts) + ')'
        return penman.decode(text, model=model)
    if kind == 'clash_chain':
        # a chain whose concepts are spelled like the variable of the previous node, listed backwards, no markers
        n = int(start['n'])
        triples = []
        for i in range(1, n + 1):
            triples.append((f'v{i}', ':instance', f'v{i - 1}' if i > 1 else 'thing'))
            if i < n:
                triples.append((f'v{i}', ':ARG0', f'v{i + 1}'))
        triples.reverse()
        return Graph(triples, top='v1')
    if kind == 'deferred_leaves':
        # a chain t -> d1 .. dM with K leaves below dM whose concept is spelled like the top variable; the chain is
        # listed backwards and the leaves' instance triples come early: they look placeable (their target names an
        # existing node) without being so, and are set aside round after round of the fallback loop
        m_, k_ = int(start['m']), int(start['k'])
        vs = ['t'] + [f'd{i}' for i in range(1, m_ + 1)]
        chain = [(vs[i - 1], ':A', vs[i]) for i in range(1, m_ + 1)]
        xs = [f'x{j}' for j in range(k_)]
        triples = [('t', ':instance', 'top')] + list(reversed(chain[1:])) + [(x, ':instance', 't') for x in xs] + \
            [chain[0]] + [(vs[-1], ':B', x) for x in xs] + [(v, ':instance', 'c') for v in vs[1:]]
        return Graph(triples, top='t')
    if kind == 'decoded':
        text = gtext.fmt_node(start['tree'], start.get('style') or {'nl': False})
        return penman.decode(text, model=model)
    triples = [tuple(t) for t in start['content']['triples']]
    mode = start.get('pyconst', 0)
    vs = {t[0] for t in triples}
    triples = [(s, r, t if (t in vs or r == ':instance') else pyconst(t, mode)) for s, r, t in triples]
    return Graph(triples, top=start.get('top'))


def plan_start(rng, spec, kind=None, ccfg=None, lcfg=None):
    kind = kind or rng.weighted([('decoded', 5), ('handbuilt', 4)])
    ccfg = ccfg or gcontent.ContentCfg(max_nodes=rng.weighted([(1, 2), (2, 3), (3, 3), (4, 3), (5, 3), (6, 3), (9, 1), (14, 1)]),
                                       p_none_target=0.03)
    c = gcontent.gen_content(rng.sub('content'), spec, ccfg)
    if kind == 'decoded':
        lcfg = lcfg or gcontent.LayoutCfg(p_align=rng.pick([0, 0, 0.3]))
        tree = gcontent.layout_tree(rng.sub('layout'), c, spec, lcfg)
        return {'kind': 'decoded', 'tree': tree, 'style': {'nl': False}}
    r = rng.sub('hb')
    triples = [list(t) for t in c['triples']]
    if r.chance(0.7):
        r.shuffle(triples)
    start = {'kind': 'handbuilt', 'content': {'top': c['top'], 'triples': triples},
             'pyconst': r.pick([0, 1, 1, 2])}
    # explicit top (maybe non-default), or implicit (first source)
    if r.chance(0.6):
        vs = gcontent.variables(c)
        start['top'] = r.pick(vs) if r.chance(0.4) else c['top']
    return start


# --------------------------------------------------------------------------
# operations

MARKER_FAULTS = ['drop_marker', 'drop_triple_markers', 'drop_layout_markers', 'drop_all_epidata',
                 'add_push', 'add_push_top', 'add_pop', 'dup_markers', 'swap_markers', 'move_markers',
                 'stale_entry', 'fresh_pop', 'alias_lists', 'reverse_markers']
REORDERINGS = ['swap_triples', 'rotate', 'reverse', 'shuffle', 'sort_by_role', 'move_triple']
CONTENT_EDITS = ['add_attr', 'add_edge', 'add_node', 'add_island', 'remove_triple', 'set_top', 'rename_var']
ILLFORMED_EDITS = ['dup_triple', 'dup_instance', 'drop_instance', 'retype_var']

EDIT_ROLES = [':ARG0', ':ARG1', ':mod', ':op1', ':op2', ':domain', ':quant', ':name', ':polarity']
EDIT_CONSTS = ['-', '7', 0, '"str"', 1.5, 'sym', None, 0.0, '"a b"', -1]
EDIT_CONCEPTS = ['new-01', 'thing', None, 'alpha']


def _vars(g):
    vs = []
    for t in g.triples:
        if t[0] not in vs:
            vs.append(t[0])
    if g._top is not None and g._top not in vs:
        vs.append(g._top)
    return vs


def _layout_types():
    from penman.layout import Push, Pop, POP
    return Push, Pop, POP


def _apply_op(g, op, res=None):
    """Apply one fault / edit to the live graph.  Returns a short tag of what
    actually happened (or None if the op was not applicable)."""
    Push, Pop, POP = _layout_types()
    name = op['op']
    a, b, c = op.get('a', 0), op.get('b', 0), op.get('c', 0)
    T = g.triples
    n = len(T)
    vs = _vars(g)

    def tri(i):
        return T[i % n]

    def lst(t):
        return g.epidata.setdefault(t, [])

    # ---- marker faults (S9) -------------------------------------------------
    if name == 'drop_marker':
        cands = [t for t in T if any(isinstance(e, (Push, Pop)) for e in g.epidata.get(t, []))]
        if not cands:
            return None
        t = cands[a % len(cands)]
        idx = [i for i, e in enumerate(g.epidata[t]) if isinstance(e, (Push, Pop))]
        del g.epidata[t][idx[b % len(idx)]]
        return name
    if name == 'drop_triple_markers':
        if not n:
            return None
        t = tri(a)
        if t in g.epidata:
            keep = [e for e in g.epidata[t] if not isinstance(e, (Push, Pop))]
            if b % 2 and not keep:
                del g.epidata[t]
            else:
                g.epidata[t] = keep
        return name
    if name == 'drop_layout_markers':
        for t, l in g.epidata.items():
            l[:] = [e for e in l if not isinstance(e, (Push, Pop))]
        return name
    if name == 'drop_all_epidata':
        g.epidata.clear()
        return name
    if name in ('add_push', 'add_push_top'):
        if not n or not vs:
            return None
        v = g.top if name == 'add_push_top' else vs[b % len(vs)]
        if v not in set(vs):
            return None
        if c % 3 == 0:
            # a *plausible* site: a triple that involves v
            cands = [t for t in T if v in (t[0], t[2])]
            t = cands[a % len(cands)] if cands else tri(a)
        else:
            t = tri(a)
        l = lst(t)
        l.insert(c % (len(l) + 1), Push(v))
        return name
    if name == 'add_pop':
        if not n:
            return None
        l = lst(tri(a))
        for _ in range(1 + b % 3):
            l.insert(c % (len(l) + 1), POP)
        return name
    def layout(l):
        return [e for e in l if isinstance(e, (Push, Pop))]

    def other(l):
        return [e for e in l if not isinstance(e, (Push, Pop))]

    # list-level faults move *layout* markers only; alignment markers are not layout
    # markers and stay on the triple they annotate
    if name == 'dup_markers':
        cands = [t for t in T if layout(g.epidata.get(t, []))]
        if not cands:
            return None
        t = cands[a % len(cands)]
        g.epidata[t] = g.epidata[t] + layout(g.epidata[t])
        return name
    if name == 'swap_markers':
        if n < 2:
            return None
        t1, t2 = tri(a), tri(b)
        if t1 == t2:
            return None
        l1, l2 = g.epidata.get(t1, []), g.epidata.get(t2, [])
        g.epidata[t1], g.epidata[t2] = other(l1) + layout(l2), other(l2) + layout(l1)
        return name
    if name == 'move_markers':
        if n < 2:
            return None
        t1, t2 = tri(a), tri(b)
        if t1 == t2:
            return None
        l1 = g.epidata.get(t1, [])
        g.epidata[t2] = g.epidata.get(t2, []) + layout(l1)
        g.epidata[t1] = other(l1)
        return name
    if name == 'stale_entry':
        # entry for a triple that is not (or no longer) in the graph
        v = vs[a % len(vs)] if vs else 'zz'
        g.epidata[(v, ':gone', 'away')] = [Push(v), POP] if b % 2 else [POP]
        return name
    if name == 'fresh_pop':
        hit = False
        for t, l in g.epidata.items():
            for i, e in enumerate(l):
                if isinstance(e, Pop):
                    l[i] = Pop()
                    hit = True
        return name if hit else None
    if name == 'alias_lists':
        if n < 2:
            return None
        t1, t2 = tri(a), tri(b)
        if t1 == t2 or other(g.epidata.get(t1, [])) or other(g.epidata.get(t2, [])):
            return None
        g.epidata[t2] = lst(t1)
        return name
    if name == 'reverse_markers':
        cands = [t for t in T if len(layout(g.epidata.get(t, []))) > 1]
        if not cands:
            return None
        t = cands[a % len(cands)]
        g.epidata[t] = other(g.epidata[t]) + layout(g.epidata[t])[::-1]
        return name

    # ---- reordering of the triple log -------------------------------------------
    if name == 'swap_triples':
        if n < 2:
            return None
        i, j = a % n, b % n
        T[i], T[j] = T[j], T[i]
        return name
    if name == 'rotate':
        if n < 2:
            return None
        k = 1 + a % (n - 1)
        T[:] = T[k:] + T[:k]
        return name
    if name == 'reverse':
        T.reverse()
        return name
    if name == 'shuffle':
        Rng(a).shuffle(T)
        return name
    if name == 'sort_by_role':
        T.sort(key=lambda t: t[1])
        return name
    if name == 'move_triple':
        if n < 2:
            return None
        t = T.pop(a % n)
        T.insert(b % n, t)
        return name

    # ---- content edits --------------------------------------------------------------
    if name == 'add_attr':
        if not vs:
            return None
        t = (vs[a % len(vs)], EDIT_ROLES[b % len(EDIT_ROLES)], EDIT_CONSTS[c % len(EDIT_CONSTS)])
        # distinct triples must stay distinct in their *written* form ('0.0' vs 0.0)
        if t[2] in set(vs) or any(x[0] == t[0] and x[1] == t[1] and rcontent.written(x[2]) == rcontent.written(t[2])
                                  for x in T):
            return None
        T.insert(op.get('pos', n) % (n + 1), t)
        return name
    if name == 'add_edge':
        if not vs:
            return None
        t = (vs[a % len(vs)], EDIT_ROLES[b % len(EDIT_ROLES)], vs[c % len(vs)])
        if t in T:
            return None
        T.insert(op.get('pos', n) % (n + 1), t)
        return name
    if name in ('add_node', 'add_island'):
        k = 1
        while f'n{k}' in set(vs) or any(f'n{k}' == t[2] for t in T):
            k += 1
        v = f'n{k}'
        T.append((v, ':instance', EDIT_CONCEPTS[c % len(EDIT_CONCEPTS)]))
        if name == 'add_node' and vs:
            other = vs[a % len(vs)]
            e = (other, EDIT_ROLES[b % len(EDIT_ROLES)], v) if c % 2 else (v, EDIT_ROLES[b % len(EDIT_ROLES)], other)
            T.insert(op.get('pos', len(T)) % (len(T) + 1), e)
        return name
    if name == 'remove_triple':
        if not n:
            return None
        t = T.pop(a % n)
        if t not in T:
            g.epidata.pop(t, None)
        _strip_pushes_of_gone(g, t[0], Push)
        return name
    if name == 'set_top':
        if not vs:
            return None
        g._top = vs[a % len(vs)]      # directly: edits never go through penman code under test
        return name
    if name == 'rename_var':
        # the same number of triples, the same top slot, a different set of variables
        if not vs:
            return None
        old = vs[a % len(vs)]
        k = 1
        while f'w{k}' in set(vs) or any(f'w{k}' == t[2] for t in T):
            k += 1
        new = f'w{k}'
        ren = lambda x: new if x == old else x
        newT = [(ren(s_), r_, t_ if r_ == ':instance' else ren(t_)) for s_, r_, t_ in T]
        epi = {}
        for t_, l in g.epidata.items():
            nt = (ren(t_[0]), t_[1], t_[2] if t_[1] == ':instance' else ren(t_[2]))
            epi[nt] = [Push(new) if (isinstance(e, Push) and e.variable == old) else e for e in l]
        T[:] = newT
        g.epidata.clear()
        g.epidata.update(epi)
        if g._top == old:
            g._top = new
        return name

    # ---- ill-formed lists (totality / error precision clause only) --------------------
    if name == 'dup_triple':
        if not n:
            return None
        T.insert(b % (n + 1), tri(a))
        return name
    if name == 'dup_instance':
        if not vs:
            return None
        T.insert(b % (n + 1), (vs[a % len(vs)], ':instance', 'second'))
        return name
    if name == 'retype_var':
        # "any list of triples": a variable that is not a string (programmatic graphs use ints or floats as node ids)
        if not vs:
            return None
        old = vs[a % len(vs)]
        new = [7, 1.5, -3, 12][b % 4]
        if new in set(vs) or any(new == t[2] for t in T):
            return None
        ren = lambda x: new if (x == old and type(x) is type(old)) else x      # noqa: E731
        newT = [(ren(s_), r_, t_ if r_ == ':instance' else ren(t_)) for s_, r_, t_ in T]
        epi = {}
        for t_, l in g.epidata.items():
            nt = (ren(t_[0]), t_[1], t_[2] if t_[1] == ':instance' else ren(t_[2]))
            epi[nt] = [Push(new) if (isinstance(e, Push) and e.variable == old) else e for e in l]
        T[:] = newT
        g.epidata.clear()
        g.epidata.update(epi)
        if g._top is not None and g._top == old:
            g._top = new
        return name
    if name == 'drop_instance':
        inst = [t for t in T if t[1] == ':instance']
        if not inst:
            return None
        t = inst[a % len(inst)]
        T.remove(t)
        _strip_pushes_of_gone(g, t[0], Push)
        return name
    return None


def apply_op(g, op, res=None):
    """Apply one operation; afterwards, Push markers naming a variable that this very
    operation turned into a non-variable are removed (see _strip_pushes_of_gone)."""
    Push, Pop, POP = _layout_types()
    before = set(_vars(g))
    done = _apply_op(g, op, res)
    for v in before - set(_vars(g)):
        _strip_pushes_of_gone(g, v, Push)
    return done


def _strip_pushes_of_gone(g, v, Push):
    """A variable that lost its last triple is no longer a variable: Push markers that
    name it would now *declare* a node (content, per the pinned test_encode), so a
    content edit that removes the node's last triple removes them too."""
    if any(x[0] == v for x in g.triples) or g._top == v:
        return
    for l in g.epidata.values():
        l[:] = [e for e in l if not (isinstance(e, Push) and e.variable == v)]


def plan_ops(rng, n, mix):
    """mix: [(list of op names, weight)]"""
    ops = []
    for i in range(n):
        names = rng.weighted(mix)
        ops.append({'op': rng.pick(names), 'a': rng.randrange(1000), 'b': rng.randrange(1000),
                    'c': rng.randrange(1000)})
    return ops


# --------------------------------------------------------------------------
# reference views

def state_facts(g, top=None):
    """Reference facts about the triple list as it is now.  Variables are the
    sources plus an explicit top (docs/structures.rst); *top* is a requested top."""
    triples = list(g.triples)
    eff_top = top if top is not None else (g._top if g._top is not None else (triples[0][0] if triples else None))
    vs = rcontent.variables_of(triples, g._top)
    top_ok = eff_top in vs
    return {
        'triples': triples, 'top': eff_top, 'variables': vs,
        'top_is_variable': top_ok,
        'well_formed': rcontent.well_formed(triples, g._top),
        'connected': _connected(triples, vs, eff_top) if top_ok else False,
        'top_has_triples': any(t[0] == g._top for t in triples) if g._top is not None else True,
    }


def _connected(triples, vs, top):
    parent = {v: v for v in vs}

    def find(x):
        while parent[x] != x:
            parent[x] = parent[parent[x]]
            x = parent[x]
        return x

    for s, r, t in triples:
        if r != ':instance' and t in vs:
            parent[find(s)] = find(t)
    root = find(top)
    return all(find(v) == root for v in vs)


def marker_count(g):
    return sum(len(v) for v in g.epidata.values())


def canon_markers(g):
    from ..core import digest
    return sorted(digest.dumps([digest.canon_triple(t), [digest.canon_marker(e) for e in l]])
                  for t, l in g.epidata.items())
