"""C20 - the penman command equals the library pipeline and emits a normal form.

Simulated: the tool as a stream-to-stream process (argv, stdin or FILE...,
stdout, exit status) over SimFS with the framing/chunking faults of C09, and
the tool applied to its own output (sequentially, and as two concurrently
scheduled processes joined by a bounded simulated pipe).
"""

import json
import os
import shutil
import tempfile

from ..core import digest
from ..core.minimise import list_candidates, with_path
from ..core.result import RunResult
from ..core.rng import Rng
from ..gen import content as gcontent
from ..gen import models as gmodels
from ..gen import text as gtext
from ..ref import cli_pipeline, splitter
from ..seams import cli, simio
from .c09 import io_plan, _tree_simplifications, _drop_branch

ID = 'C20'
HASHSEED_IS_VIOLATION = False

TIERS = {
    'quick': {'runs': 18000, 'replica_runs': 300, 'hash_seeds': [1, 4242], 'timeout_s': 1200, 'shrink_s': 40},
    'thorough': {'runs': 120000, 'replica_runs': 1200, 'hash_seeds': [1, 7, 99, 4242, 31337],
                 'timeout_s': 9000, 'shrink_s': 120},
}

RULE = ('Each run plans one history of tool invocations: a stream of 1-4 generated well-formed graphs with metadata, '
        'split over stdin or 1-3 simulated files; an option set sampled from the power set of the eight normalisation '
        'options (keys for --rearrange/--reconfigure incl. comma-separated combinations; the random key only with a '
        'constant PRNG stream) x {--indent no/-1/0/N, --compact, --triples} x {default, --amr, --noop, --model FILE}; '
        'framing and chunking plans on stdin, files and stdout; -v levels. The real main() runs in-process and is '
        'compared block by block with the documented library pipeline composed from public calls; then with a second '
        'formatting setting (content equality), then on its own output (normal form), and a sample as two concurrent '
        'tool processes joined by a bounded pipe under the seeded baton scheduler, and as real child processes. '
        'distinct_nontrivial counts distinct (model kind, sorted normalisation options with keys, formatting, '
        'stdin-or-n-files, newline style) tuples having at least one normalisation option or a non-default format.')

REAL_VS_STUB = {
    'real': ['penman.__main__.main and everything behind it', 'argparse', 'CPython io text/buffer layers',
             'python -m penman child processes (sample)', 'the library calls composing the reference pipeline'],
    'simulated': ['argv/stdin/stdout/stderr endpoints, raw devices, SimFS', 'bounded pipe and thread schedule in '
                  'pipeline mode', 'global PRNG (constant stream) when a random key is used'],
}
ASSUMPTIONS = [
    'The documented pipeline order is the one in docs/command.rst / the property statement; the reference composes '
    'public library calls in that order and passes the selected model to every step.',
    'Blank-line counts between the output of different input files are not asserted (undocumented); blocks must be '
    'separated by whitespace containing a newline.',
    '--triples output is compared token for token; it is excluded from the feed-back clause because the tool cannot read it.',
    'Generated inputs avoid :subset/:superset/include-91 (ambiguous AMR reification, finding F4, judged under C12).',
]
PROBES = ['same_file_twice', 'encoding_option', 'stdin_input', 'multi_file', 'triples_mode', 'normal_form_checked', 'format_pair_checked',
          'identity_checked', 'reconfigure', 'rearrange', 'make_variables', 'reify_edges', 'dereify_edges',
          'reify_attributes', 'indicate_branches', 'canonicalize_roles', 'random_key_constant_stream',
          'model_file', 'subprocess_crosscheck', 'pipeline_mode', 'verbose']

NORM_FLAGS = ['canonicalize_roles', 'reify_edges', 'dereify_edges', 'reify_attributes', 'indicate_branches']
REARRANGE_KEYS = ['canonical', 'alphanumeric', 'inverted-last', 'attributes-first', 'random']
RECONFIGURE_KEYS = ['original', 'canonical', 'random']
VAR_FORMATS = ['{prefix}{j}', 'a{i}', '{prefix}{i}', 'x{j}_', 'v{i}{j}',
               # format specifications and conversions are ordinary str.format syntax
               '{prefix}{i:02d}', 'n{j:d}', '{prefix}{i!s}', '{prefix}{j:>02}',
               # an option value that begins with a character argparse can be told to treat specially
               '@{i}', '@{prefix}{j}']


def plan_options(rng, spec):
    o = {'indent': rng.pick([-1, -1, -1, None, 0, 1, 3, 4]), 'compact': rng.chance(0.3),
         'triples': rng.chance(0.08), 'verbosity': rng.weighted([(0, 8), (1, 1), (2, 1), (3, 1)])}
    p = rng.pick([0.0, 0.15, 0.3, 0.6])
    for f in NORM_FLAGS:
        if rng.chance(p):
            o[f] = True
    if rng.chance(p):
        n = rng.weighted([(1, 3), (2, 2), (3, 1)])
        o['rearrange'] = rng.sample(REARRANGE_KEYS, n)
        if rng.chance(0.2):
            # a key list may name a criterion twice ("combined in prioritized order": the first mention decides)
            o['rearrange'] = o['rearrange'] + [rng.pick(o['rearrange'])] + ([rng.pick(REARRANGE_KEYS)] if rng.chance(0.3) else [])
    if rng.chance(p * 0.7):
        n = rng.weighted([(1, 3), (2, 1)])
        o['reconfigure'] = rng.sample(RECONFIGURE_KEYS, n)
        if rng.chance(0.2):
            o['reconfigure'] = o['reconfigure'] + [rng.pick(o['reconfigure'])]
    if rng.chance(p * 0.7):
        o['make_variables'] = rng.pick(VAR_FORMATS)
    if rng.chance(0.12):
        o['encoding'] = rng.pick(['utf-16', 'utf-8-sig', 'utf-32', 'latin-1', 'cp1252'])
    if rng.chance(0.1):
        o['indent_arg'] = rng.pick(['no', 'None', 'FALSE', '-1', '0', '2'])
        o['indent'] = {'no': None, 'None': None, 'FALSE': None, '-1': -1, '0': 0, '2': 2}[o['indent_arg']]
        # "--indent 0" is falsy for `if indent:`?  it is the string '0', which is truthy
    return o


def plan(rng, idx, tier):
    spec = rng.weighted([(gmodels.AMR, 5), (gmodels.DEFAULT, 3), (gmodels.custom(idx), 2), (gmodels.NOOP, 1),
                         (gmodels.OWN_CONCEPT_ROLE, 0.6)])
    ng = rng.weighted([(1, 4), (2, 3), (3, 2), (4, 1)])
    many = idx % 500 == 250
    if many:
        # a long stream of tiny graphs: counters, flush intervals and other thresholds in the number of graphs
        ng = rng.sub('many').pick([130, 300, 1100])
    graphs = []
    for j in range(ng):
        gr = rng.sub('g', j)
        ccfg = gcontent.ContentCfg(max_nodes=(gr.pick([1, 1, 2]) if many else
                                              gr.weighted([(1, 3), (2, 3), (3, 3), (4, 3), (5, 3), (9, 1), (13, 1)])),
                                   max_attrs=gr.weighted([(2, 6), (5, 1)]), reifiable=gr.pick([0.0, 0.3, 0.6]),
                                   exotic=gr.pick([0.0, 0.0, 0.0, 0.15]),
                                   reified_nodes=gr.pick([0.0, 0.3, 0.8]), p_inverted_attr=0.03,
                                   p_none_target=0.02, avoid_ambiguous=True)
        c = gcontent.gen_content(gr, spec, ccfg)
        tree = gcontent.layout_tree(gr.sub('layout'), c, spec, gcontent.LayoutCfg(p_align=gr.pick([0, 0, 0.3, 0.6])))
        graphs.append({'tree': tree, 'meta': gtext.gen_metadata(gr.sub('meta'), p_any=0.5,
                                                                exotic=gr.pick([0.0, 0.0, 0.0, 0.3]))})
    srng = rng.sub('style')
    nfiles = srng.weighted([(0, 4), (1, 3), (2, 2), (3, 1)])       # 0 = stdin
    cuts = sorted(srng.randrange(ng + 1) for _ in range(max(0, nfiles - 1)))
    opts = plan_options(rng.sub('opts'), spec)
    if opts.get('canonicalize_roles'):
        # "--canonicalize-roles will try harder to resolve over-inversions": give it some
        orng = rng.sub('overinvert')
        for g_ in graphs:
            if orng.chance(0.3):
                _over_invert(g_['tree'], orng)
    opts2 = dict(opts)
    frng = rng.sub('fmt2')
    opts2['indent'] = frng.pick([x for x in [-1, None, 0, 2, 5] if x != opts['indent']])
    opts2['compact'] = not opts['compact'] if frng.chance(0.5) else opts['compact']
    opts2.pop('indent_arg', None)
    return {
        'property': ID, 'model': spec, 'graphs': graphs, 'nfiles': nfiles, 'cuts': cuts,
        'options': opts, 'format2': {'indent': opts2['indent'], 'compact': opts2['compact']},
        'style': {'nl': srng.chance(0.5), 'indent': srng.pick([0, 2, 3]),
                  'sep': srng.weighted([('blank', 4), ('newline', 3), ('space', 2)]),
                  'final_newline': srng.chance(0.8), 'meta_one_line': srng.chance(0.1), 'meta_gap': rng.sub('gap').chance(0.12), 'inner_blank': rng.sub('gap2').chance(0.12)},
        'newline': srng.weighted([('LF', 5), ('CRLF', 2), ('CR', 1), ('mixed', 1)]),
        'mixseed': srng.randrange(1 << 30),
        'read_plan': io_plan(rng.sub('rio'), rng.sub('rio?').chance(0.5)),
        'write_plan': io_plan(rng.sub('wio'), rng.sub('wio?').chance(0.5)),
        'repeat_file': (srng.randrange(3) if (nfiles >= 1 and srng.chance(0.15)) else None),
        'file_perm': (rng.sub('perm').sample(list(range(nfiles)), nfiles) if nfiles >= 2 and rng.sub('perm?').chance(0.5)
                      else None),
        'glob_names': (1 + rng.sub('glob').randrange(3)) if (nfiles >= 1 and idx % 300 != 11 and rng.sub('glob?').chance(0.08)) else 0,
        'subprocess': (idx % 300 == 11),
        'pipeline': (idx % 25 == 3),
        'pipe': {'capacity': rng.sub('pipe').pick([1, 2, 7, 16, 64]), 'sched_seed': rng.sub('pipe2').randrange(1 << 30),
                 'p_switch': rng.sub('pipe3').pick([0.002, 0.02, 0.2])},
    }


# --------------------------------------------------------------------------

def _over_invert(node, rng):
    for b in node[1]:
        role, tgt = b
        if role != '/' and rng.chance(0.35):
            base, tilde, aln = role.partition('~')
            b[0] = base + '-of-of' * (1 + rng.randrange(2)) + tilde + aln
        if isinstance(tgt, list):
            _over_invert(tgt, rng)


def split_sources(trace):
    graphs = trace['graphs']
    n = trace.get('nfiles', 0)
    if n <= 1:
        parts = [graphs]
    else:
        cuts = [min(c, len(graphs)) for c in trace.get('cuts', [])][:n - 1]
        cuts = sorted(cuts)
        bounds = [0] + cuts + [len(graphs)]
        parts = [graphs[bounds[i]:bounds[i + 1]] for i in range(len(bounds) - 1)]
    nl = trace['newline']
    stdin = n == 0
    if stdin and nl not in ('LF', 'CRLF'):
        nl = 'CRLF'
    texts = []
    for i, p in enumerate(parts):
        t = gtext.build_text(p, trace['style'])
        texts.append(gtext.apply_newlines(t, nl, Rng(trace.get('mixseed', 0) + i)))
    return stdin, texts


def file_order(trace, n):
    """Indices of the files on the command line; a file may be named twice."""
    order = list(range(n))
    perm = trace.get('file_perm')
    if perm:
        # the command line need not name the files in lexicographic order
        order = [i for i in perm if i < n] + [i for i in order if i not in perm]
    rep = trace.get('repeat_file')
    if rep is not None and n:
        order.append(rep % n)
    return order


def _ConstRandom(value=0.5):
    """S8 seam: the global PRNG replaced by a constant stream (all keys tie); a full stand-in for the module."""
    from ..seams import simrandom
    return simrandom.Stream({'mode': 'constant'})


def _file_name(trace):
    """File names are plain, or contain characters that mean something to glob / the shell but are ordinary in a
    file name: in[0].penman, in?1.penman ..."""
    if trace.get('glob_names'):
        return lambda i: ['/sim/in[{}].penman', '/sim/in{}[x].penman', '/sim/i[m-o]{}.penman'][trace['glob_names'] % 3].format(i)
    return lambda i: f'/sim/in{i}.penman'


def _restore_prng(pmodel, old):
    if old is None:
        try:
            del pmodel.random
        except AttributeError:
            pass
    else:
        pmodel.random = old


def _reseed_global_prng():
    """Should the code under test draw its random keys from somewhere else than penman.model.random (where the
    constant stream sits), it draws from the interpreter-wide PRNG: tool run and library reference then start
    from the same state, so that bypassing the seam is not mistaken for a difference between the two."""
    import random as _random
    _random.seed(20261001)


def uses_random(opts):
    return 'random' in (opts.get('rearrange') or []) or 'random' in (opts.get('reconfigure') or [])


def run_tool(spec, opts, stdin, texts, trace, k, res, tag):
    argv = gmodels.cli_args(spec, '/sim/model.json') + cli_pipeline.cli_args(opts)
    files, plans = {}, {}
    if spec['kind'] == 'custom':
        files['/sim/model.json'] = json.dumps(spec['spec'], ensure_ascii=False).encode('utf-8')
    stdin_bytes = b''
    if stdin:
        stdin_bytes = texts[0].encode('utf-8')
        if opts.get('encoding'):
            # --encoding concerns FILE arguments; given together with stdin it must change nothing, whatever it names
            argv += ['--encoding', opts['encoding'] if trace.get('mixseed', 0) % 2 else 'utf-8']
            res.hit('probe.encoding_option')
    else:
        enc = opts.get('encoding') or 'utf-8'
        try:
            for t in texts:
                t.encode(enc)
        except UnicodeEncodeError:
            enc = 'utf-8'          # a single-byte code page cannot hold this text: the files are UTF-8 then
        if opts.get('encoding'):
            argv += ['--encoding', enc]
            res.hit('probe.encoding_option')
        name = _file_name(trace)
        for i, t in enumerate(texts):
            files[name(i)] = t.encode(enc)
            plans[name(i)] = trace.get('read_plan')
            if trace.get('glob_names'):
                # a sibling that the odd name matches *as a pattern*; it must never be read
                files[f'/sim/in{i}.penman'] = '(decoy / never-read :file {})\n'.format(i).encode(enc)
        argv += [name(i) for i in file_order(trace, len(texts))] if tag == 'tool' or tag == 'tool-format2' \
            else [name(i) for i in range(len(texts))]
    import penman.model as pmodel
    rnd = _ConstRandom() if uses_random(opts) else None
    old_random = getattr(pmodel, 'random', None)
    if rnd:
        pmodel.random = rnd
        _reseed_global_prng()
    try:
        r = cli.run_cli(argv, stdin_bytes=stdin_bytes, files=files, plans=plans,
                        stdin_plan=trace.get('read_plan'), stdout_plan=trace.get('write_plan'), counters=k,
                        text_chunk=(trace.get('read_plan') or {}).get('text_chunk'),
                        stdin_slow=(trace.get('mixseed', 0) % 3) if stdin else 0)
    finally:
        if rnd:
            _restore_prng(pmodel, old_random)
            res.hit('probe.random_key_constant_stream')
    res.event(tag, argv, r.exit, digest.sha(r.stdout), digest.canon_exc(r.exc) if r.exc else None)
    return argv, r


def ref_run(texts, model, opts):
    import penman.model as pmodel
    rnd = _ConstRandom() if uses_random(opts) else None
    old_random = getattr(pmodel, 'random', None)
    if rnd:
        pmodel.random = rnd
        _reseed_global_prng()
    try:
        return cli_pipeline.run(texts, model, opts), None
    except Exception as e:
        return None, e
    finally:
        if rnd:
            _restore_prng(pmodel, old_random)


def decode_all(text, model):
    import penman
    return penman.loads(text, model=model)


def execute(trace):
    res = RunResult()
    k = simio.Counters()
    spec = trace['model']
    model = gmodels.make_model(spec)
    opts = dict(trace['options'])
    stdin, texts = split_sources(trace)
    if stdin:
        res.hit('probe.stdin_input')
    elif len(texts) > 1:
        res.hit('probe.multi_file')
    if spec['kind'] == 'custom':
        res.hit('probe.model_file')
    for f in NORM_FLAGS + ['rearrange', 'reconfigure', 'make_variables']:
        if opts.get(f):
            res.hit('probe.' + f)
    if opts.get('verbosity'):
        res.hit('probe.verbose')
    if opts.get('triples'):
        res.hit('probe.triples_mode')

    seq = texts if stdin else [texts[i] for i in file_order(trace, len(texts))]
    if len(seq) > len(texts):
        res.hit('probe.same_file_twice')
    expected, rexc = ref_run(seq, model, opts)
    argv, r = run_tool(spec, opts, stdin, texts, trace, k, res, 'tool')
    detail = {'argv': argv, 'sources': texts}

    def out_detail(r_):
        return {'stdout': r_.stdout[:3000], 'stderr': r_.stderr[-1200:]}

    ok = False
    if rexc is not None:
        # the library pipeline itself raises for this input: the tool can only fail too
        if r.exc is None:
            res.violate('pipeline', 'library-raises-but-tool-succeeds', error=digest.canon_exc(rexc),
                        **detail, **out_detail(r))
        elif type(r.exc) is not type(rexc):
            res.violate('pipeline', 'different-exception', library=digest.canon_exc(rexc),
                        tool=digest.canon_exc(r.exc), **detail)
    elif r.exc is not None:
        res.violate('pipeline', 'exception-escaped-main', error=digest.canon_exc(r.exc), **detail,
                    **out_detail(r))
    elif r.stdout_error is not None:
        res.violate('pipeline', 'stdout-error', error=digest.canon_exc(r.stdout_error), **detail)
    else:
        ok = compare_with_pipeline(r, expected, opts, res, detail, out_detail, ngraphs=_ngraphs(trace, stdin, texts),
                                   single_source=bool(stdin or len(file_order(trace, len(texts))) == 1))
        if r.exit != 0:
            res.violate('exit', 'nonzero-without-check', got=r.exit, **detail, **out_detail(r))

    norm = [f for f in NORM_FLAGS + ['rearrange', 'reconfigure', 'make_variables'] if opts.get(f)]
    if ok and not opts.get('triples'):
        # oracle 4: identity on content without normalisation options
        if not norm:
            res.hit('probe.identity_checked')
            try:
                gin = [g for t in seq for g in decode_all(t, model)]
                gout = decode_all(r.stdout, model)
                a = [_content(g) for g in gin]
                b = [_content(g) for g in gout]
                if a != b:
                    res.violate('identity', 'output-decodes-to-different-graphs', expected=a, got=b,
                                **detail, **out_detail(r))
            except Exception as e:
                res.violate('identity', 'output-not-decodable', error=digest.canon_exc(e), **detail,
                            **out_detail(r))
        # oracle 2: formatting options never change content
        if not uses_random(opts) or True:
            o2 = dict(opts)
            o2.update(trace.get('format2') or {})
            o2.pop('indent_arg', None)
            argv2, r2 = run_tool(spec, o2, stdin, texts, trace, k, res, 'tool-format2')
            res.hit('probe.format_pair_checked')
            if r2.exc is not None or r2.exit != 0:
                res.violate('format', 'second-format-failed', argv2=argv2, exit=r2.exit,
                            error=digest.canon_exc(r2.exc) if r2.exc else None, **detail)
            else:
                try:
                    a = [digest.canon(g) for g in decode_all(r.stdout, model)]
                    b = [digest.canon(g) for g in decode_all(r2.stdout, model)]
                    if a != b:
                        res.violate('format', 'formatting-changed-content', argv2=argv2, first=r.stdout[:2000],
                                    second=r2.stdout[:2000], **detail)
                except Exception as e:
                    res.violate('format', 'output-not-decodable', error=digest.canon_exc(e), argv2=argv2,
                                first=r.stdout[:2000], second=r2.stdout[:2000], **detail)
        # oracle 3: normal form
        if not opts.get('reconfigure') and not opts.get('indicate_branches') and not uses_random(opts):
            res.hit('probe.normal_form_checked')
            argv3, r3 = run_tool(spec, opts, True, [r.stdout], trace, k, res, 'tool-again')
            if r3.exc is not None or r3.exit != 0:
                res.violate('normal_form', 'second-pass-failed', exit=r3.exit,
                            error=digest.canon_exc(r3.exc) if r3.exc else None, first=r.stdout[:2000],
                            stderr=r3.stderr[-1200:], **detail)
            elif r3.stdout_bytes != r.stdout_bytes:
                res.violate('normal_form', 'output-not-a-fixed-point', first=r.stdout[:3000],
                            second=r3.stdout[:3000], nfiles=0 if stdin else len(seq),
                            only_file_boundary_separators_differ=_boundary_only(r.stdout, r3.stdout, seq, stdin),
                            duplicate_triples=_dup_flags(texts, r.stdout, model),
                            input_has_inverted_attribute=_has_inverted_attribute(texts, model, spec),
                            first_has_normalisable_role=_has_normalisable_role(r.stdout, spec),
                            canonicalised_input_has_normalisable_role=_canonicalised_input_dirty(seq, model, spec),
                            **detail)
            if trace.get('pipeline') and r3.exc is None and r3.exit == 0:
                pipeline_mode(trace, spec, opts, stdin, texts, r3, res, detail)
    if trace.get('subprocess') and rexc is None and not uses_random(opts) and not opts.get('encoding'):
        subprocess_crosscheck(spec, argv, texts, stdin, r, res)
    for name, n in k.c.items():
        res.hit(name, n)
    res.hit('step.invocations')
    if norm or opts.get('indent') != -1 or opts.get('compact') or opts.get('triples'):
        res.cover.add(digest.dumps([spec['kind'], sorted((f, opts.get(f)) if f in ('rearrange', 'reconfigure', 'make_variables')
                                                         else (f, True) for f in norm),
                                    opts.get('indent'), bool(opts.get('compact')), bool(opts.get('triples')),
                                    'stdin' if stdin else len(texts), trace['newline']]))
    return res


def _boundary_only(first, second, texts, stdin):
    """True iff the two outputs have identical blocks and differ only in that the first has a
    single newline (and the second a blank line) exactly at boundaries between input files."""
    import penman
    if stdin or len(texts) < 2:
        return False
    b1, s1, t1, p1 = splitter.split_blocks(first)
    b2, s2, t2, p2 = splitter.split_blocks(second)
    if p1 or p2 or [splitter.block_text(b) for b in b1] != [splitter.block_text(b) for b in b2] or t1 != t2:
        return False
    counts = []
    for t in texts:
        try:
            counts.append(len(list(penman.iterparse(t))))
        except Exception:
            return False
    bounds = set()
    acc = 0
    for c in counts[:-1]:
        acc += c
        bounds.add(acc)
    diff = [i for i, (a, b) in enumerate(zip(s1, s2)) if a != b]
    return bool(diff) and all(i in bounds and s1[i] == '\n' and s2[i] == '\n\n' for i in diff)


def _dup_flags(texts, first, model):
    """[input denotes a duplicated triple, first output denotes a duplicated triple]"""
    def dup(text):
        try:
            return any(len(set(g.triples)) < len(g.triples) for g in decode_all(text, model))
        except Exception:
            return None
    return [any(dup(t) for t in texts), dup(first)]


def _has_inverted_attribute(texts, model, spec):
    from ..ref.roles import model_ref
    mref = model_ref(spec)
    try:
        for t in texts:
            for g in decode_all(t, model):
                vs = {x[0] for x in g.triples}
                if any(x[1] != ':instance' and x[2] not in vs and mref.is_inverted(x[1]) for x in g.triples):
                    return True
    except Exception:
        return None
    return False


def _has_normalisable_role(text, spec):
    """does the text use a role that the model's normalisation table rewrites?"""
    import penman
    from ..ref.roles import model_ref
    mref = model_ref(spec)
    if not mref.normalizations:
        return False
    try:
        for t in penman.iterparse(text):
            for _, (role, _tgt) in t.walk():
                if role.split('~')[0] in mref.normalizations:
                    return True
    except Exception:
        return None
    return False


def _ngraphs(trace, stdin, texts):
    """number of graphs written into the input, counting a file named twice twice"""
    n = trace.get('nfiles', 0)
    graphs = trace['graphs']
    if stdin or n <= 1:
        parts = [graphs]
    else:
        cuts = sorted(min(c, len(graphs)) for c in trace.get('cuts', []))[:n - 1]
        bounds = [0] + cuts + [len(graphs)]
        parts = [graphs[bounds[i]:bounds[i + 1]] for i in range(len(bounds) - 1)]
    if stdin:
        return len(graphs)
    return sum(len(parts[i]) for i in file_order(trace, len(parts)))


def _canonicalised_input_dirty(texts, model, spec):
    """After canonicalize_roles, does any input tree still use a spelling the model normalises?
    (If so, a non-fixed point is canonicalize_roles' own doing and not known finding F19.)"""
    import penman
    from penman import transform
    from ..ref.roles import model_ref
    mref = model_ref(spec)
    if not mref.normalizations:
        return False
    try:
        for text in texts:
            for t in penman.iterparse(text):
                ct = transform.canonicalize_roles(t, model)
                for _, (role, _tgt) in ct.walk():
                    if role.split('~')[0] in mref.normalizations:
                        return True
    except Exception:
        return None
    return False


def _content(g):
    return {'top': g.top, 'triples': sorted(digest.dumps(digest.canon_triple(t)) for t in g.triples),
            'metadata': [[a, b] for a, b in g.metadata.items()]}


def compare_with_pipeline(r, expected, opts, res, detail, out_detail, ngraphs=None, single_source=False):
    want = [s for s, _ in expected]
    if opts.get('triples'):
        got = splitter.tokens(r.stdout)
        exp = [tok for s in want for tok in splitter.tokens(s)]
        if got != exp:
            res.violate('pipeline', 'triples-output-differs', expected=want, **detail, **out_detail(r))
            return False
        return True
    blocks, seps, tail, problems = splitter.split_blocks(r.stdout)
    if ngraphs is not None and len(blocks) != ngraphs:
        res.violate('pipeline', 'not-one-output-graph-per-input-graph', input_graphs=ngraphs, output_graphs=len(blocks),
                    **detail, **out_detail(r))
        return False
    if problems or len(blocks) != len(want):
        res.violate('pipeline', 'graph-count-or-shape', problems=problems, blocks=len(blocks),
                    expected_graphs=len(want), expected=want, **detail, **out_detail(r))
        return False
    for i, (b, w) in enumerate(zip(blocks, want)):
        if splitter.block_text(b) != w:
            res.violate('pipeline', 'block-differs-from-library-pipeline', index=i, expected=w,
                        got=splitter.block_text(b), **detail, stderr=r.stderr[-800:])
            return False
    for i, s in enumerate(seps):
        if (i == 0 and s != '') or (i > 0 and ('\n' not in s or s.strip(' \t\r\n') != '')):
            res.violate('pipeline', 'bad-separator', index=i, separator=s, **detail, **out_detail(r))
            return False
    if single_source and len(set(seps[1:])) > 1:
        # the graphs of one input are written one after the other in the same way: a separator that changes in the
        # middle of a stream (every n-th graph, after a flush) is not "one output graph per input graph, in order"
        # written by one rule.  Across *files* the pinned tool already differs (known finding F16), hence one input
        odd = [i for i, s_ in enumerate(seps) if i > 0 and s_ != seps[1]]
        res.violate('pipeline', 'non-uniform-separators-within-one-input', first=seps[1], other=seps[odd[0]],
                    at_graph=odd[0], graphs=len(blocks), **detail)
        return False
    if want and tail != '\n':
        res.violate('pipeline', 'bad-tail', tail=tail, **detail, **out_detail(r))
        return False
    return True


def subprocess_crosscheck(spec, argv, texts, stdin, r, res):
    d = tempfile.mkdtemp(prefix='vsim-c20-')
    try:
        real = [os.path.join(d, a[5:]) if a.startswith('/sim/') else a for a in argv]
        if spec['kind'] == 'custom':
            with open(os.path.join(d, 'model.json'), 'w', encoding='utf-8') as fh:
                json.dump(spec['spec'], fh, ensure_ascii=False)
        if not stdin:
            for i, t in enumerate(texts):
                with open(os.path.join(d, f'in{i}.penman'), 'wb') as fh:
                    fh.write(t.encode('utf-8'))
        outs = []
        for hs in ('0', '12345'):
            code, out, err = cli.run_subprocess(real + ['--encoding', 'utf-8'],
                                                stdin_bytes=texts[0].encode('utf-8') if stdin else b'',
                                                cwd=d, hashseed=hs, unbuffered=(hs != '0'), optimize=(hs != '0'))
            outs.append((code, out, err))
        res.hit('probe.subprocess_crosscheck')
        res.event('subprocess', outs[0][0], digest.sha(outs[0][1].hex()))
        # child 0: hash seed 0, block-buffered stdout (a pipe); child 1: another hash seed, unbuffered stdout, python -O
        for k, (code, out, err) in enumerate(outs):
            if r.exc is None and (code != r.exit or out != r.stdout_bytes):
                res.violate('subprocess', 'in-process-vs-subprocess-differ', argv=argv, exit=[r.exit, code], child=k,
                            stdout=[r.stdout[:2000], out.decode('utf-8', 'replace')[:2000]],
                            stderr=err.decode('utf-8', 'replace')[-1200:])
                break
    finally:
        shutil.rmtree(d, ignore_errors=True)


def pipeline_mode(trace, spec, opts, stdin, texts, r, res, detail):
    """penman OPTS < input | penman OPTS : two concurrent tool instances, bounded pipe.  Must give
    exactly what the sequential composition (second pass *r*) gave."""
    try:
        from ..seams import pipeline
    except ImportError:
        return
    out = pipeline.run_pair(spec, opts, stdin, texts, trace.get('pipe') or {}, res,
                            order=None if stdin else file_order(trace, len(texts)))
    if out is None:
        return
    res.hit('probe.pipeline_mode')
    code1, code2, stdout2, exc = out
    if exc is not None:
        res.violate('normal_form', 'pipeline-mode-exception', error=digest.canon_exc(exc), **detail)
    elif (code1, code2) != (0, 0) or stdout2 != r.stdout:
        res.violate('normal_form', 'pipeline-mode-differs', exits=[code1, code2], expected=r.stdout[:2000],
                    got=stdout2[:2000], pipe=trace.get('pipe'), **detail)


# --------------------------------------------------------------------------

def shrink(trace):
    yield from list_candidates(trace, ['graphs'])
    if trace.get('nfiles', 0) != 0:
        yield with_path(trace, ['nfiles'], 0)
    for gi, g in enumerate(trace['graphs']):
        if g.get('meta'):
            yield with_path(trace, ['graphs', gi, 'meta'], [])
        for path, i in _tree_simplifications(g['tree']):
            yield with_path(trace, ['graphs', gi, 'tree'], _drop_branch(g['tree'], path, i))
    o = trace['options']
    for key in list(o):
        if key in ('indent',):
            if o[key] != -1 and 'indent_arg' not in o:
                yield with_path(trace, ['options', 'indent'], -1)
            continue
        o2 = dict(o)
        o2.pop(key)
        if key == 'indent_arg':
            o2['indent'] = -1
        yield with_path(trace, ['options'], o2)
        if key in ('rearrange', 'reconfigure') and len(o[key]) > 1:
            for sub in o[key]:
                yield with_path(trace, ['options', key], [sub])
    if trace.get('newline') != 'LF':
        yield with_path(trace, ['newline'], 'LF')
    simple_style = {'nl': False, 'indent': 3, 'sep': 'blank', 'final_newline': True}
    if trace.get('style') != simple_style:
        yield with_path(trace, ['style'], simple_style)
    benign = {'chunks': [4096], 'buffer_size': 8192, 'text_chunk': 8192}
    for key in ('read_plan', 'write_plan'):
        if trace.get(key) != benign:
            yield with_path(trace, [key], benign)
    for key in ('subprocess', 'pipeline'):
        if trace.get(key):
            yield with_path(trace, [key], False)


def _known_multifile_separator(trace, v):
    return (v.sig == 'normal_form:output-not-a-fixed-point' and v.detail.get('nfiles', 0) >= 2
            and v.detail.get('only_file_boundary_separators_differ') is True)


def _known_merged_relations(trace, v):
    o = trace.get('options', {})
    return (v.sig == 'normal_form:output-not-a-fixed-point'
            and (o.get('dereify_edges') or o.get('canonicalize_roles'))
            and v.detail.get('duplicate_triples') == [False, True])


def _known_inverted_attribute_reified(trace, v):
    return (v.sig == 'normal_form:output-not-a-fixed-point' and trace.get('options', {}).get('reify_attributes')
            and v.detail.get('input_has_inverted_attribute') is True)


def _known_dereify_after_canonicalize(trace, v):
    o = trace.get('options', {})
    return (v.sig == 'normal_form:output-not-a-fixed-point' and o.get('canonicalize_roles')
            and v.detail.get('first_has_normalisable_role') is True
            and v.detail.get('canonicalised_input_has_normalisable_role') is False)


KNOWN = {'multifile_separator': _known_multifile_separator,
         'merged_relations': _known_merged_relations,
         'inverted_attribute_reified': _known_inverted_attribute_reified,
         'dereify_after_canonicalize': _known_dereify_after_canonicalize}
