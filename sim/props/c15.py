"""C15 - graph queries partition the triples; graph set operations are set algebra.

System simulated: a heap of up to four Graph objects whose marker lists can
alias each other, driven by a history of |, |=, -, -= (incl. self-application),
top assignments and constructions, with every slot (result, operands and
bystanders) compared with a reference model after every operation, and each
batch re-executed under other hash seeds (the operators iterate sets).
"""

from ..core import digest
from ..core.minimise import list_candidates, with_path
from ..core.result import RunResult

ID = 'C15'
HASHSEED_IS_VIOLATION = True

TIERS = {
    'quick': {'runs': 60000, 'replica_runs': 6000, 'hash_seeds': [1, 4242, 99], 'timeout_s': 1200, 'shrink_s': 40},
    'thorough': {'runs': 600000, 'replica_runs': 40000, 'hash_seeds': [1, 2, 3, 7, 99, 4242, 31337, 2**31],
                 'timeout_s': 9000, 'shrink_s': 120},
}

RULE = ('Each run is a history of <= 10 operations on a heap of <= 4 Graph objects over small alphabets (3 variables, '
        'roles with and without colon incl. :instance, targets = variables, symbols, strings, numbers, None; duplicate '
        'triples allowed; identifiable marker objects): construct, h = gi | gj, gi |= gj, h = gi - gj, gi -= gj (incl. i = j), '
        'gi.top = v; results are stored back so later operations act on earlier results. After every operation every '
        'slot is compared with a reference (triple list, explicit top, marker map) and queried: instances/edges/'
        'attributes partition in order, filters, implicit top, variables, re-entrancies. Batches are re-executed under '
        'other PYTHONHASHSEED values and per-operation result digests must agree. distinct_nontrivial counts distinct '
        '(operation kind sequence, alias pattern i=j, duplicate/None/explicit-top features) tuples of histories with >= 2 '
        'operations.')

REAL_VS_STUB = {
    'real': ['penman.graph.Graph: constructor, |, |=, -, -=, top setter, variables, instances, edges, attributes, '
             'reentrancies'],
    'simulated': ['the operation history and heap aliasing', 'hash-seed of the interpreter (replicas)',
                  'reference model of list/set algebra and of the queries'],
}
ASSUMPTIONS = [
    'No scheduling, clock or I/O dimension; the nondeterminism seam is hash randomisation of set iteration.',
    'Markers of triples present in both operands of a union, epigraph entries of removed triples and metadata of results '
    'are not constrained (the statement is silent).',
    'When an operand itself contains duplicate triples, union/difference results are compared after order-preserving '
    'de-duplication (set algebra does not say how often a repeated element is carried over).',
]
PROBES = ['self_union', 'self_difference', 'top_dropped', 'top_kept', 'top_refused', 'duplicate_operand',
          'none_target', 'markers_carried', 'inplace_after_copy', 'role_without_colon', 'reentrancy_reported',
          'empty_graph', 'triple_list_edited_in_place']

VARS = ['a', 'b', 'c']
ROLES = [':instance', ':instance', ':ARG0', 'ARG1', ':mod', 'instance', ':']
CONSTS = ['x', '"s"', None, 7, 'a-const', 0]


def gen_triples(rng, n):
    out = []
    for _ in range(n):
        s = rng.pick(VARS)
        r = rng.pick(ROLES)
        t = rng.pick(VARS) if rng.chance(0.45) else rng.pick(CONSTS)
        out.append([s, r, t])
    if out and rng.chance(0.2):
        out.insert(rng.randrange(len(out) + 1), list(rng.pick(out)))   # a duplicate
    return out


def plan(rng, idx, tier):
    nslots = 2 + rng.randrange(3)
    slots = []
    mid = 0
    for i in range(nslots):
        r = rng.sub('slot', i)
        triples = gen_triples(r, r.randrange(6) if not r.chance(0.05) else 6 + r.randrange(10))
        if idx % 150 == 75 and i == 0:
            # a big operand (thresholds in the number of triples; many repeated triples come with it)
            triples = gen_triples(r.sub('big'), r.sub('bign').pick([70, 260, 420]))
        top = None
        if r.chance(0.4):
            top = r.pick(VARS)
        markers = []
        for j, t in enumerate(triples):
            if r.chance(0.4):
                mid += 1
                markers.append([j, [mid] if r.chance(0.7) else [mid, mid + 100]])
        meta = [['id', str(i)], ['snt', 'w' * (1 + i)]][:r.randrange(3)]
        slots.append({'triples': triples, 'top': top, 'markers': markers, 'meta': meta})
    ops = []
    r = rng.sub('ops')
    for k in range(1 + (r.randrange(10) if not r.chance(0.05) else 10 + r.randrange(15))):
        kind = r.weighted([('or', 3), ('ior', 3), ('sub', 3), ('isub', 3), ('set_top', 2), ('construct', 1),
                           ('edit_triple', 1)])
        op = {'op': kind, 'i': r.randrange(4), 'j': r.randrange(4), 'dst': r.randrange(4),
              'observe': r.chance(0.6)}
        if r.chance(0.15):
            op['j'] = op['i']
        if kind == 'set_top':
            op['v'] = r.pick(VARS + [None, 'zz', 'x'])
        if kind == 'edit_triple':
            # user code rewrites one entry of the public triple list in place (same list, same length)
            op['k'] = r.randrange(1000)
            op['src'] = r.pick(VARS + ['d'])
        if kind == 'construct':
            op['triples'] = gen_triples(r, r.randrange(5))
            op['top'] = r.pick(VARS) if r.chance(0.4) else None
            op['as'] = r.pick(['list', 'list', 'tuple', 'iter', 'generator'])    # "an iterable of triples"
        ops.append(op)
    return {'property': ID, 'slots': slots, 'ops': ops}


# --------------------------------------------------------------------------
# reference model

def colon(r):
    return r if r.startswith(':') else ':' + r


class Ref:
    def __init__(self, triples, top, markers, meta=None):
        self.triples = [(s, colon(r), t) for s, r, t in triples]
        self.top = top
        self.markers = dict(markers)      # triple -> list of marker ids (values)
        self.meta = [list(x) for x in (meta or [])]   # None = unconstrained (result of | or -)

    def copy(self):
        r = Ref([t for t in self.triples], self.top, {k: list(v) for k, v in self.markers.items()})
        r.meta = None
        return r

    def sources(self):
        return {t[0] for t in self.triples}

    def variables(self):
        vs = self.sources()
        if self.top is not None:
            vs.add(self.top)
        return vs

    def eff_top(self):
        if self.top is not None:
            return self.top
        return self.triples[0][0] if self.triples else None

    def has_dups(self):
        return len(set(self.triples)) < len(self.triples)


def dedup(ts):
    seen = set()
    out = []
    for t in ts:
        if t not in seen:
            seen.add(t)
            out.append(t)
    return out


def ref_union(a, b):
    r = a.copy()
    present = set(a.triples)
    added = [t for t in b.triples if t not in present]
    r.triples = a.triples + added
    for t in set(added):
        if t in b.markers:
            r.markers[t] = list(b.markers[t])
    return r, set(added), present & set(b.triples)


def ref_difference(a, b):
    r = a.copy()
    removed = set(b.triples)
    r.triples = [t for t in a.triples if t not in removed]
    for t in removed:
        r.markers.pop(t, None)
    occurring = {v for t in r.triples for v in (t[0], t[2])}
    if r.top not in occurring:
        r.top = None
    return r


# --------------------------------------------------------------------------

def mk_marker(ids):
    from penman.surface import Alignment
    return [Alignment((i,)) for i in ids]


def marker_ids(lst):
    out = []
    for e in lst:
        idx = getattr(e, 'indices', None)
        out.append(idx[0] if idx else repr(type(e).__name__))
    return out


def build(slot):
    from penman.graph import Graph
    triples = [tuple(t) for t in slot['triples']]
    epidata = {}
    rmarkers = {}
    for j, ids in slot.get('markers', []):
        if j < len(triples):
            s, r, t = triples[j]
            key = (s, colon(r), t)
            epidata[key] = mk_marker(ids)
            rmarkers[key] = list(ids)
    how = slot.get('as') or 'list'
    arg = {'tuple': tuple(triples), 'iter': iter(triples), 'generator': (t_ for t_ in triples)}.get(how, triples)
    g = Graph(arg, top=slot.get('top'), epidata=epidata, metadata=dict(slot.get('meta') or []))
    return g, Ref(triples, slot.get('top'), rmarkers, slot.get('meta'))


def check_slot(name, g, ref, res, ctx, loose=False, unconstrained=(), observe=True):
    """Compare one heap slot with its reference and (when *observe*) run the query invariants."""
    if ref.meta is not None and [list(x) for x in g.metadata.items()] != ref.meta:
        res.violate('algebra', 'operand-metadata-changed', slot=name, expected=ref.meta,
                    got=[list(x) for x in g.metadata.items()], **ctx)
        return False
    got = list(g.triples)
    want = ref.triples
    if (dedup(got) != dedup(want)) if loose else (got != want):
        res.violate('algebra', 'triples-differ', slot=name, expected=[list(map(str, t)) for t in want],
                    got=[list(map(str, t)) for t in got], **ctx)
        return False
    if g._top != ref.top:
        res.violate('algebra', 'explicit-top-differs', slot=name, expected=ref.top, got=g._top, **ctx)
        return False
    for t in set(want):
        if t in unconstrained:
            continue
        gm = marker_ids(g.epidata.get(t, []))
        if gm != ref.markers.get(t, []):
            res.violate('algebra', 'markers-differ', slot=name, triple=list(map(str, t)),
                        expected=ref.markers.get(t, []), got=gm, **ctx)
            return False
    if not observe:
        return True
    # ---- queries --------------------------------------------------------------------
    triples = got
    vs = {t[0] for t in triples} | ({g._top} if g._top is not None else set())
    inst = [t for t in triples if t[1] == ':instance']
    edges = [t for t in triples if t[1] != ':instance' and t[2] in vs]
    attrs = [t for t in triples if t[1] != ':instance' and t[2] not in vs]
    try:
        q = {'variables': g.variables(), 'instances': [tuple(x) for x in g.instances()],
             'edges': [tuple(x) for x in g.edges()], 'attributes': [tuple(x) for x in g.attributes()],
             'top': g.top, 'reentrancies': g.reentrancies()}
    except Exception as e:
        res.violate('queries', 'query-raised:' + type(e).__name__, slot=name, error=digest.canon_exc(e), **ctx)
        return False
    exp_top = g._top if g._top is not None else (triples[0][0] if triples else None)
    ent = {}
    if exp_top is not None:
        ent[exp_top] = 1
    for t in edges:
        ent[t[2]] = ent.get(t[2], 0) + 1
    reent = {v: n - 1 for v, n in ent.items() if n >= 2}
    if reent:
        res.hit('probe.reentrancy_reported')
    want_q = {'variables': vs, 'instances': inst, 'edges': edges, 'attributes': attrs, 'top': exp_top,
              'reentrancies': reent}
    for key in want_q:
        if q[key] != want_q[key]:
            res.violate('queries', key + '-wrong', slot=name, expected=digest.canon(want_q[key]),
                        got=digest.canon(q[key]), triples=[list(map(str, t)) for t in triples], top=g._top, **ctx)
            return False
    # filters select sub-lists
    for t in triples[:3]:
        s, r, tg = t
        try:
            f1 = [tuple(x) for x in g.edges(source=s)]
            f2 = [tuple(x) for x in g.edges(role=r)]
            f3 = [tuple(x) for x in g.attributes(source=s, role=r)]
            f4 = [tuple(x) for x in g.edges(target=tg)] if tg is not None else None
            f5 = [tuple(x) for x in g.attributes(target=tg)] if tg is not None else None
            f6 = [tuple(x) for x in g.attributes(role=r)]
            # every argument given at once: still a sub-list, i.e. every occurrence of a repeated triple
            f7 = [tuple(x) for x in g.edges(source=s, role=r, target=tg)] if tg is not None else None
            f8 = [tuple(x) for x in g.attributes(source=s, role=r, target=tg)] if tg is not None else None
            f9 = [tuple(x) for x in g.edges(source=s, target=tg)] if tg is not None else None
        except Exception as e:
            res.violate('queries', 'filter-raised:' + type(e).__name__, slot=name, error=digest.canon_exc(e), **ctx)
            return False
        if f1 != [x for x in edges if x[0] == s] or f2 != [x for x in edges if x[1] == r] \
                or f3 != [x for x in attrs if x[0] == s and x[1] == r] \
                or (f4 is not None and f4 != [x for x in edges if x[2] == tg]) \
                or (f5 is not None and f5 != [x for x in attrs if x[2] == tg]) \
                or f6 != [x for x in attrs if x[1] == r] \
                or (f7 is not None and f7 != [x for x in edges if x == t]) \
                or (f8 is not None and f8 != [x for x in attrs if x == t]) \
                or (f9 is not None and f9 != [x for x in edges if x[0] == s and x[2] == tg]):
            res.violate('queries', 'filter-wrong', slot=name, triple=list(map(str, t)),
                        triples=[list(map(str, x)) for x in triples], top=g._top, **ctx)
            return False
    return True


def _independent_of_left(h, left, right, res, ctx):
    """The non-in-place operators work on a deep copy of their left operand (anchors of C15/C17): the
    result may not hold any of the left operand's mutable parts, or a later in-place edit of the result
    would write through to the operand."""
    if h is left:
        res.violate('algebra', 'result-is-the-left-operand', **ctx)
        return False
    # marker lists that also belong to the right operand are excluded: the pinned union carries the
    # right operand's list objects along (appendix B), which the statement does not forbid
    mine = {id(l) for l in left.epidata.values()} - {id(l) for l in right.epidata.values()}
    if right is left:
        return True
    shared = [list(map(str, t)) for t, l in h.epidata.items() if id(l) in mine]
    if h.triples is left.triples or h.epidata is left.epidata or (h.metadata is left.metadata) or shared:
        res.violate('algebra', 'result-shares-mutable-state-with-left-operand', shared_marker_lists=shared[:4],
                    triples_shared=h.triples is left.triples, epidata_shared=h.epidata is left.epidata,
                    metadata_shared=h.metadata is left.metadata, **ctx)
        return False
    return True


def execute(trace):
    from penman.exceptions import GraphError
    res = RunResult()
    heap, refs = [], []
    for slot in trace['slots']:
        g, r = build(slot)
        heap.append(g)
        refs.append(r)
        if any(not t[1].startswith(':') for t in slot['triples']):
            res.hit('probe.role_without_colon')
    loose = [r.has_dups() for r in refs]
    ok = True
    for i, (g, r) in enumerate(zip(heap, refs)):
        ok = ok and check_slot(f'g{i}', g, r, res, {'op_index': -1, 'op': 'construct'})
    kinds = []
    for k, op in enumerate(trace['ops']):
        if not ok:
            break
        n = len(heap)
        i, j = op['i'] % n, op['j'] % n
        name = op['op']
        ctx = {'op_index': k, 'op': {kk: v for kk, v in op.items()}, 'i': i, 'j': j}
        kinds.append(name + ('=' if i == j and name != 'set_top' and name != 'construct' else ''))
        unconstrained = set()
        target_slot = None
        try:
            if name == 'construct':
                g, r = build({'triples': op.get('triples', []), 'top': op.get('top'), 'markers': [], 'as': op.get('as')})
                dst = op['dst'] % (n + 1) if n < 4 else op['dst'] % n
                if dst == n:
                    heap.append(g); refs.append(r); loose.append(r.has_dups())
                else:
                    heap[dst], refs[dst], loose[dst] = g, r, r.has_dups()
                target_slot = dst
                if not r.triples:
                    res.hit('probe.empty_graph')
            elif name in ('or', 'ior'):
                a, b = refs[i], refs[j]
                nr, added, common = ref_union(a, b)
                # markers of triples of the left operand for which the right operand holds an epigraph entry are
                # not constrained: common triples, and stale entries the right operand kept for triples it no longer
                # contains (the pinned union takes over the right operand's whole marker map, appendix B)
                unconstrained = set(common) | {t for t in a.triples if t in heap[j].epidata}
                if i == j:
                    res.hit('probe.self_union')
                if any(t in b.markers for t in added):
                    res.hit('probe.markers_carried')
                if name == 'or':
                    h = heap[i] | heap[j]
                    if not _independent_of_left(h, heap[i], heap[j], res, ctx):
                        break
                    dst = op['dst'] % (n + 1) if n < 4 else op['dst'] % n
                    lz = loose[i] or loose[j]
                    if dst == n:
                        heap.append(h); refs.append(nr); loose.append(lz)
                    else:
                        heap[dst], refs[dst], loose[dst] = h, nr, lz
                    target_slot = dst
                else:
                    hi = heap[i]
                    hi |= heap[j]
                    if hi is not heap[i]:
                        res.violate('algebra', 'inplace-returned-other-object', **ctx)
                        break
                    nr.meta = refs[i].meta       # |= keeps the left operand's own metadata
                    refs[i] = nr
                    loose[i] = loose[i] or loose[j]
                    target_slot = i
                    res.hit('probe.inplace_after_copy')
            elif name in ('sub', 'isub'):
                a, b = refs[i], refs[j]
                nr = ref_difference(a, b)
                if i == j:
                    res.hit('probe.self_difference')
                if a.top is not None:
                    res.hit('probe.top_dropped' if nr.top is None else 'probe.top_kept')
                if name == 'sub':
                    h = heap[i] - heap[j]
                    if not _independent_of_left(h, heap[i], heap[j], res, ctx):
                        break
                    dst = op['dst'] % (n + 1) if n < 4 else op['dst'] % n
                    lz = loose[i] or loose[j]
                    if dst == n:
                        heap.append(h); refs.append(nr); loose.append(lz)
                    else:
                        heap[dst], refs[dst], loose[dst] = h, nr, lz
                    target_slot = dst
                else:
                    hi = heap[i]
                    hi -= heap[j]
                    if hi is not heap[i]:
                        res.violate('algebra', 'inplace-returned-other-object', **ctx)
                        break
                    nr.meta = refs[i].meta
                    refs[i] = nr
                    target_slot = i
            elif name == 'edit_triple':
                if refs[i].triples:
                    k_ = op.get('k', 0) % len(refs[i].triples)
                    old = refs[i].triples[k_]
                    new_t = (op.get('src', 'a'), old[1], old[2])
                    heap[i].triples[k_] = new_t
                    refs[i].triples[k_] = new_t
                    if old not in refs[i].triples:
                        # a careful edit: the epigraph stays in step with the triples (no stale entry is left behind,
                        # which later unions would otherwise carry around - a history the statement does not cover)
                        heap[i].epidata.pop(old, None)
                        refs[i].markers.pop(old, None)
                    # the rewritten triple may revive an epigraph entry that an earlier removal left behind
                    # (entries of removed triples are unconstrained): adopt what the graph holds for it
                    unconstrained = {new_t}
                    res.hit('probe.triple_list_edited_in_place')
                target_slot = i
            elif name == 'set_top':
                v = op.get('v')
                r = refs[i]
                allowed = v is None or v in r.variables()
                try:
                    heap[i].top = v
                    refused = False
                except GraphError:
                    refused = True
                if refused:
                    res.hit('probe.top_refused')
                if refused == allowed:
                    res.violate('algebra', 'top-assignment-' + ('refused' if refused else 'accepted'),
                                value=v, variables=sorted(map(str, r.variables())), **ctx)
                    break
                if allowed:
                    r.top = v
                target_slot = i
        except Exception as e:
            res.violate('algebra', 'operation-raised:' + type(e).__name__, error=digest.canon_exc(e), **ctx)
            break
        if unconstrained and target_slot is not None:
            # markers of triples present in both operands are not constrained: adopt what the
            # implementation chose so that later operations are judged from the actual state
            for t in unconstrained:
                l = heap[target_slot].epidata.get(t)
                if l is None:
                    refs[target_slot].markers.pop(t, None)
                else:
                    refs[target_slot].markers[t] = marker_ids(l)
        if any(t[2] is None for r in refs for t in r.triples):
            res.hit('probe.none_target')
        if any(loose):
            res.hit('probe.duplicate_operand')
        # every slot, not only the result: operands and bystanders must be untouched
        for s, (g, r) in enumerate(zip(heap, refs)):
            if not check_slot(f'g{s}', g, r, res, ctx, loose=loose[s],
                              unconstrained=unconstrained if s == target_slot else (),
                              observe=op.get('observe', True)):
                ok = False
                break
        res.event(k, name, i, j, [digest.sha(digest.canon_graph(g, with_epidata=False)) for g in heap],
                  [[list(map(str, t)) for t in g.triples] for g in heap][target_slot if target_slot is not None else 0])
    res.hit('step.operations', len(trace['ops']))
    if len(kinds) >= 2:
        res.cover.add(digest.dumps([kinds, any(loose), any(r.top is not None for r in refs)]))
    return res


def shrink(trace):
    yield from list_candidates(trace, ['ops'])
    for si, slot in enumerate(trace['slots']):
        if slot['markers']:
            yield with_path(trace, ['slots', si, 'markers'], [])
        if slot['triples']:
            # removing triples shifts marker indices; drop markers with them
            for keep in _sublists(slot['triples']):
                t = with_path(trace, ['slots', si, 'triples'], keep)
                t['slots'][si]['markers'] = []
                yield t
        if slot.get('top') is not None:
            yield with_path(trace, ['slots', si, 'top'], None)
    for k, op in enumerate(trace['ops']):
        if op.get('triples'):
            for keep in _sublists(op['triples']):
                yield with_path(trace, ['ops', k, 'triples'], keep)


def _sublists(items):
    from ..core.minimise import ddmin_list
    return ddmin_list(items)


KNOWN = {}
