"""C12 - every transformation returns a well-formed graph that serialises faithfully.

System simulated: the life of one Graph through a *program* of transformations
(reify edges, dereify edges, reify attributes, indicate branches at most once,
with restarts in between), starting from decoded, hand-built (marker-less,
shuffled), edited (content edits, reordering, marker loss - hence missing or
stale markers) and re-topped states, with invariants after every step.
"""

import copy

from ..core import digest
from ..core.minimise import list_candidates, with_path
from ..core.result import RunResult
from ..gen import content as gcontent
from ..gen import models as gmodels
from ..ref import content as rcontent
from ..ref.roles import model_ref
from . import lifecycle as lc

ID = 'C12'
HASHSEED_IS_VIOLATION = False

TIERS = {
    'quick': {'runs': 48000, 'replica_runs': 600, 'hash_seeds': [1, 4242], 'timeout_s': 1200, 'shrink_s': 40, 'max_reports': 5},
    'thorough': {'runs': 400000, 'replica_runs': 3000, 'hash_seeds': [1, 7, 99, 4242, 31337],
                 'timeout_s': 9000, 'shrink_s': 120},
}

RULE = ('Each run: a model (default / AMR / custom tables), a start state (decoded with markers; hand-built without '
        'markers, shuffled, optional explicit non-default top), 0-4 "edits" a user makes to a decoded graph (add '
        'attribute / edge / node, remove a triple, reorder triples, set the top, lose markers - each kept only if the '
        'graph stays well-formed and connected), then a program of 1-5 steps from {reify edges, dereify edges, reify '
        'attributes, indicate branches (at most once), restart} in the tool\'s order or any other. After every step: no '
        'exception, same top, well-formed, connected, encode succeeds and decodes to the same content; the '
        'reify-attributes and indicate-branches clauses are checked by contraction / removal. distinct_nontrivial '
        'counts distinct (model kind, start kind, edit kinds, program) tuples whose program has >= 2 steps or whose '
        'start is not a freshly decoded graph.')

REAL_VS_STUB = {
    'real': ['penman.transform.* on the live object', 'penman.encode/decode for the faithfulness clause'],
    'simulated': ['the edit history that leaves markers missing or stale (seam S9)', 'reference for well-formedness, '
                  'connectivity, content, contraction and branch removal'],
}
ASSUMPTIONS = [
    'No scheduling or I/O dimension: the simulator contributes seeded programs and edit histories with per-step invariants.',
    '"Edited" means content edits, reordering, a new top and marker loss; fabricated markers are C06\'s fault space and '
    'are not applied here (indicate_branches is documented to trust the markers it is given).',
    'The content change made by reify/dereify edges themselves is C11\'s subject (not claimed): after those steps the '
    'reference content is re-based on the step\'s result.',
]
PROBES = ['start_decoded', 'start_handbuilt', 'edited', 'explicit_nondefault_top', 'reified_something',
          'dereified_something', 'attributes_reified', 'branches_indicated', 'restart', 'program_len_ge_3',
          'markerless_reify', 'indicate_then_reify']

STEPS = ['reify_edges', 'dereify_edges', 'reify_attributes', 'indicate_branches', 'restart']
CLI_ORDER = ['reify_edges', 'dereify_edges', 'reify_attributes', 'indicate_branches']
EDITS = ['add_attr', 'add_edge', 'add_node', 'remove_triple', 'set_top', 'swap_triples', 'rotate', 'shuffle',
         'move_triple', 'drop_marker', 'drop_triple_markers', 'drop_layout_markers', 'drop_all_epidata', 'rename_var']


def plan(rng, idx, tier):
    spec = rng.weighted([(gmodels.AMR, 5), (gmodels.custom(idx), 3), (gmodels.DEFAULT, 1),
                         # a model with its own concept role: graphs, layout and transformations keep ':instance'
                         (gmodels.OWN_CONCEPT_ROLE, 1)])
    ccfg = gcontent.ContentCfg(max_nodes=rng.weighted([(1, 3), (2, 3), (3, 3), (4, 3), (5, 3), (8, 1), (12, 1)]),
                               max_attrs=rng.weighted([(2, 6), (4, 1)]), reifiable=rng.pick([0.2, 0.5, 0.8]),
                               reified_nodes=rng.pick([0.0, 0.4, 0.9]), p_none_target=0.02,
                               p_inverted_attr=rng.pick([0, 0, 0.05]))
    start = lc.plan_start(rng.sub('start'), spec, ccfg=ccfg)
    edits = []
    if rng.sub('e?').chance(0.45):
        er = rng.sub('edits')
        for i in range(1 + er.randrange(4)):
            edits.append({'op': er.pick(EDITS), 'a': er.randrange(1000), 'b': er.randrange(1000),
                          'c': er.randrange(1000)})
    pr = rng.sub('prog')
    if pr.chance(0.4):
        k = 1 + pr.randrange(4)
        prog = sorted(pr.sample(CLI_ORDER, k), key=CLI_ORDER.index)
    else:
        prog = []
        for i in range(1 + pr.randrange(5)):
            s = pr.pick(STEPS)
            if s == 'indicate_branches' and s in prog:
                s = pr.pick(['reify_edges', 'dereify_edges', 'reify_attributes'])
            prog.append(s)
    t = {'property': ID, 'model': spec, 'start': start, 'edits': edits, 'program': prog}
    # a user's code looks at the graph (queries) between its edits, and edits results of transformations too
    orng = rng.sub('observe')
    for e in edits:
        if orng.chance(0.35):
            e['observe'] = True
    mr = rng.sub('mid')
    if len(prog) >= 2 and mr.chance(0.25):
        t['mid_edits'] = {'at': 1 + mr.randrange(len(prog) - 1),
                          'edits': [{'op': mr.pick(EDITS), 'a': mr.randrange(1000), 'b': mr.randrange(1000),
                                     'c': mr.randrange(1000), 'observe': mr.chance(0.5)}
                                    for _ in range(1 + mr.randrange(3))]}
    return t


def _dangling(g, vars_before):
    """An edit removed a node's last triple but left references to it behind: the former
    variable is now a constant spelled like a variable (and stale markers may still name it).
    Such a half-deleted node is not a well-formed graph in this property's sense."""
    gone = vars_before - set(lc._vars(g))
    return bool(gone) and any(t[2] in gone for t in g.triples)


def wf_problems(triples, top):
    """well-formedness of a result: every source has exactly one instance triple, triples distinct."""
    probs = []
    seen = set()
    for t in triples:
        if t in seen:
            probs.append(['duplicate-triple', list(map(str, t))])
        seen.add(t)
    inst = {}
    for s, r, t in triples:
        if r == ':instance':
            inst[s] = inst.get(s, 0) + 1
    for v in sorted({t[0] for t in triples} | ({top} if top is not None else set()), key=str):
        n = inst.get(v, 0)
        if n == 0:
            probs.append(['source-without-instance', str(v)])
        elif n > 1:
            probs.append(['multiple-instance', str(v)])
    return probs


def execute(trace):
    import penman
    from penman import transform
    res = RunResult()
    spec = trace['model']
    model = gmodels.make_model(spec)
    mref = model_ref(spec)
    try:
        g = lc.make_start(trace['start'], model)
    except Exception as e:
        res.event('start-failed', digest.canon_exc(e))
        return res
    res.hit('probe.start_' + trace['start']['kind'])
    edit_kinds = []

    def apply_edits(g, ops):
        """Edits inside the property's domain are kept, the others rolled back."""
        for op in ops:
            if op.get('observe'):
                # what user code does between edits: look at the graph through its query API
                g.variables(), g.edges(), g.attributes(), g.reentrancies(), g.top
                res.hit('probe.observed_between_edits')
            snap = copy.deepcopy(g)
            vars_before = set(lc._vars(g))
            done = lc.apply_op(g, op)
            if done is None:
                continue
            f = lc.state_facts(g)
            if not (f['well_formed'] and f['connected'] and f['top_is_variable']) or _dangling(g, vars_before):
                g = snap          # an edit that breaks the precondition is not part of this property's domain
                continue
            edit_kinds.append(done)
            res.hit('fault.' + done if done.startswith('drop') else 'step.edit')
        return g

    g = apply_edits(g, trace.get('edits', []))
    if edit_kinds:
        res.hit('probe.edited')
    f0 = lc.state_facts(g)
    if not (f0['well_formed'] and f0['connected'] and f0['top_is_variable']) or not g.triples:
        res.event('start-outside-domain')
        return res
    if g._top is not None and g.triples and g._top != g.triples[0][0]:
        res.hit('probe.explicit_nondefault_top')

    def describe(h):
        return {'triples': [list(map(str, t)) for t in h.triples], 'top': h.top, 'markers': lc.canon_markers(h)}

    prev_kind = None
    mid = trace.get('mid_edits') or {}
    for i, step in enumerate(trace['program']):
        if mid and mid.get('at') == i:
            g = apply_edits(g, mid.get('edits', []))
            res.hit('probe.edited_between_transformations')
        before = g
        before_triples = list(g.triples)
        before_top = g.top
        before_vars = rcontent.variables_of(before_triples, g._top)
        has_markers = any(any(type(e).__name__ in ('Push', 'Pop') for e in l) for l in g.epidata.values())
        base = {'step': i, 'transformation': step, 'model': spec['kind'], 'input': describe(before),
                'start': trace['start']['kind'], 'edits': edit_kinds}
        try:
            if step == 'restart':
                h = penman.decode(penman.encode(g, model=model), model=model)
                res.hit('probe.restart')
            elif step == 'reify_edges':
                h = transform.reify_edges(g, model)
                if not has_markers:
                    res.hit('probe.markerless_reify')
                if prev_kind == 'indicate_branches':
                    res.hit('probe.indicate_then_reify')
            elif step == 'dereify_edges':
                h = transform.dereify_edges(g, model)
            elif step == 'reify_attributes':
                h = transform.reify_attributes(g)
            elif step == 'indicate_branches':
                h = transform.indicate_branches(g, model)
            else:
                continue
        except Exception as e:
            res.violate('no-raise', 'exception:' + type(e).__name__, error=digest.canon_exc(e), **base)
            break
        prev_kind = step
        res.event(i, step, digest.sha(digest.canon_graph(h, with_metadata=False)))
        out = describe(h)
        if list(h.triples) != before_triples:
            res.hit({'reify_edges': 'probe.reified_something', 'dereify_edges': 'probe.dereified_something',
                     'reify_attributes': 'probe.attributes_reified',
                     'indicate_branches': 'probe.branches_indicated'}.get(step, 'step.restart_changed'))
        # same top
        if h.top != before_top:
            res.violate('top', 'top-changed', expected=before_top, got=h.top, output=out, **base)
            break
        # well-formed and connected
        probs = wf_problems(list(h.triples), h._top)
        if probs:
            res.violate('wellformed', 'illformed:' + probs[0][0], problems=probs[:6], output=out,
                        flags=_flags(before_triples, before_vars, h, mref, step), **base)
            break
        facts = lc.state_facts(h)
        if not facts['connected']:
            res.violate('wellformed', 'illformed:disconnected', output=out, **base)
            break
        # encodes without error and decodes to itself
        try:
            text = penman.encode(h, model=model)
            back = penman.decode(text, model=model)
        except Exception as e:
            res.violate('faithful', 'encode-or-decode-failed:' + type(e).__name__, error=digest.canon_exc(e),
                        output=out, **base)
            break
        want = rcontent.content_of_graph(h, mref)
        got = rcontent.content_of_graph(back, mref)
        if want != got:
            res.violate('faithful', 'content-changed', diff=rcontent.content_diff(want, got), text=text,
                        output=out, flags=_flags(before_triples, before_vars, h, mref, step), **base)
            break
        # step-specific clauses
        if step == 'reify_attributes':
            hv = rcontent.variables_of(list(h.triples), h._top)
            attrs = [t for t in h.triples if t[1] != ':instance' and t[2] not in hv]
            if attrs:
                res.violate('reify-attributes', 'attributes-remain', attributes=[list(map(str, t)) for t in attrs],
                            output=out, **base)
                break
            new_vars = hv - before_vars
            concept = {t[0]: t[2] for t in h.triples if t[1] == ':instance' and t[0] in new_vars}
            contracted = []
            for t in h.triples:
                if t[0] in new_vars:
                    continue
                if t[1] != ':instance' and t[2] in new_vars:
                    contracted.append((t[0], t[1], concept.get(t[2])))
                else:
                    contracted.append(t)
            if contracted != before_triples:
                res.violate('reify-attributes', 'contraction-differs',
                            expected=[list(map(str, t)) for t in before_triples],
                            got=[list(map(str, t)) for t in contracted], **base)
                break
        if step == 'indicate_branches':
            top_role = model.top_role
            added = list(h.triples)
            for t in before_triples:
                if t in added:
                    added.remove(t)
            if any(t[1] != top_role for t in added):
                res.violate('indicate-branches', 'non-top-role-triple-added',
                            added=[list(map(str, t)) for t in added], output=out, **base)
                break
            removed = [t for t in h.triples if not (t[1] == top_role and t in added)]
            # removing the added triples (one occurrence each) gives back the original list
            rest = list(h.triples)
            for t in added:
                rest.remove(t)
            if rest != before_triples:
                res.violate('indicate-branches', 'removal-differs', expected=[list(map(str, t)) for t in before_triples],
                            got=[list(map(str, t)) for t in rest], **base)
                break
            if trace['start']['kind'] == 'decoded' and set(edit_kinds) <= {'add_attr', 'add_edge', 'rename_var'} and i > 0 \
                    and 'restart' not in trace['program'][:i] and len(before_vars) > 1:
                # markers that come from parsing and were only ever touched by the marker-migrating transformations
                # (plus attributes / re-entrancies added without markers, which need none) still describe a complete
                # layout in which every node but the top is nested exactly once: each of them must get exactly one
                # top-role triple - composition clause, e.g. dereify then indicate (the tool's order).  Which node
                # is named as the parent is not judged here: dereify_edges leaves POPs behind that can move a
                # definition site (layout, not content; see DESIGN 13)
                res.hit('probe.indicate_after_transformations')
                kids = sorted((t[2] for t in added), key=str)
                want_kids = sorted((v for v in before_vars if v != before_top), key=str)
                if kids != want_kids:
                    res.violate('indicate-branches', 'not-one-top-role-triple-per-nested-node',
                                expected_children=list(map(str, want_kids)), got=[list(map(str, t)) for t in added],
                                flags=_flags(before_triples, before_vars, h, mref, step), **base)
                    break
            if trace['start']['kind'] == 'decoded' and not edit_kinds and i == 0:
                # freshly decoded: every variable but the top is a nested node, written exactly once
                want_n = len(before_vars) - 1
                if len(added) != want_n:
                    res.violate('indicate-branches', 'branch-count', expected=want_n, got=len(added),
                                added=[list(map(str, t)) for t in added], **base)
                    break
                # and each one links the node that wrote the branch to the nested node it opened
                # (read off the generated tree, independently of the markers)
                want_links = sorted(_nested_links(trace['start']['tree'], top_role))
                if sorted(added) != want_links:
                    res.violate('indicate-branches', 'wrong-parent-or-child', expected=[list(t) for t in want_links],
                                got=[list(map(str, t)) for t in sorted(added)], **base)
                    break
        g = h
    if len(trace['program']) >= 3:
        res.hit('probe.program_len_ge_3')
    res.hit('step.operations', len(trace['program']) + len(trace.get('edits', [])))
    if len(trace['program']) >= 2 or edit_kinds or trace['start']['kind'] != 'decoded':
        res.cover.add(digest.dumps([spec['kind'], trace['start']['kind'], sorted(set(edit_kinds)), trace['program']]))
    return res


def _nested_links_of_tree(node, top_role):
    """(parent variable, top role, nested variable) for every node written inside another node of a penman Tree."""
    var, branches = node
    out = []
    for role, tgt in branches:
        if isinstance(tgt, tuple):
            out.append((var, top_role, tgt[0]))
            out.extend(_nested_links_of_tree(tgt, top_role))
    return out


def _nested_links(node, top_role):
    var, branches = node
    out = []
    for role, tgt in branches:
        if isinstance(tgt, list):
            out.append((var, top_role, tgt[0]))
            out.extend(_nested_links(tgt, top_role))
    return out


def _flags(before_triples, before_vars, h, mref, step):
    """Structural facts used by the known-finding predicates."""
    hv = rcontent.variables_of(list(h.triples), h._top)
    ambiguous = any((t[1] == ':instance' and t[2] == 'include-91') or t[1] in (':subset', ':superset')
                    for t in before_triples)
    inv_attr = any(t[1] != ':instance' and t[2] not in before_vars and mref.is_inverted(t[1])
                   for t in before_triples)
    dup = len(set(h.triples)) < len(h.triples)
    src_const = any(t[0] not in {x[0] for x in h.triples if x[1] == ':instance'} for t in h.triples)
    return {'input_has_include91_or_subset_superset': ambiguous, 'input_has_inverted_attribute': inv_attr,
            'output_has_duplicate_triple': dup, 'input_had_duplicate': len(set(before_triples)) < len(before_triples),
            'output_has_source_without_node': src_const, 'step': step}


def shrink(trace):
    yield from list_candidates(trace, ['program'])
    yield from list_candidates(trace, ['edits'])
    if trace.get('mid_edits'):
        yield with_path(trace, ['mid_edits'], None)
        yield from list_candidates(trace, ['mid_edits', 'edits'])
        if trace['mid_edits'].get('at', 0) > 1:
            yield with_path(trace, ['mid_edits', 'at'], trace['mid_edits']['at'] - 1)
    for i, op in enumerate(trace.get('edits', [])):
        if op.get('observe'):
            yield with_path(trace, ['edits', i, 'observe'], False)
    st = trace['start']
    if st['kind'] == 'handbuilt':
        triples = st['content']['triples']
        for v in sorted({t[0] for t in triples}, key=str):
            keep = [t for t in triples if t[0] != v and t[2] != v]
            if keep and len(keep) < len(triples) and st.get('top') != v:
                yield with_path(trace, ['start', 'content', 'triples'], keep)
        yield from list_candidates(trace, ['start', 'content', 'triples'])
        if st.get('pyconst'):
            yield with_path(trace, ['start', 'pyconst'], 0)
        if 'top' in st:
            s2 = dict(st)
            s2.pop('top')
            yield with_path(trace, ['start'], s2)
    else:
        from .c09 import _tree_simplifications, _drop_branch
        for path, i in _tree_simplifications(st['tree']):
            yield with_path(trace, ['start', 'tree'], _drop_branch(st['tree'], path, i))
    for i, op in enumerate(trace.get('edits', [])):
        for key in ('a', 'b', 'c'):
            if op.get(key, 0) > 3:
                for small in (0, 1, 2):
                    yield with_path(trace, ['edits', i, key], small)


def _known_f4(trace, v):
    fl = v.detail.get('flags') or {}
    return (trace['model']['kind'] == 'amr' and v.detail.get('transformation') == 'dereify_edges'
            and v.sig in ('wellformed:illformed:source-without-instance', 'faithful:content-changed')
            and fl.get('input_has_include91_or_subset_superset') is True
            and fl.get('output_has_source_without_node') is True)


def _known_f17(trace, v):
    fl = v.detail.get('flags') or {}
    return (v.sig == 'wellformed:illformed:duplicate-triple' and v.detail.get('transformation') == 'dereify_edges'
            and fl.get('output_has_duplicate_triple') is True and fl.get('input_had_duplicate') is False)


def _known_f18(trace, v):
    fl = v.detail.get('flags') or {}
    return (v.sig == 'faithful:content-changed' and v.detail.get('transformation') == 'reify_attributes'
            and fl.get('input_has_inverted_attribute') is True)


KNOWN = {'ambiguous_amr_reification': _known_f4, 'merged_relations': _known_f17,
         'inverted_attribute_reified': _known_f18}
