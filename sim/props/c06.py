"""C06 - layout markers shape the text but never its content; encoding is total.

System simulated: the life of one Graph object whose epigraph (stored,
user-editable layout state) suffers loss, duplication, reordering,
misattachment and staleness of Push/POP markers, whose triple log is
reordered, and whose content is edited - with `encode` observed after every
step under a line-step budget (bounded liveness).
"""

from ..core import digest
from ..core.minimise import list_candidates, with_path
from ..core.result import RunResult
from ..gen import content as gcontent
from ..gen import models as gmodels
from ..ref import content as rcontent
from ..ref.roles import model_ref
from . import lifecycle as lc

ID = 'C06'
HASHSEED_IS_VIOLATION = False

TIERS = {
    'quick': {'runs': 48000, 'replica_runs': 600, 'hash_seeds': [1, 4242], 'timeout_s': 1200, 'shrink_s': 40},
    'thorough': {'runs': 400000, 'replica_runs': 3000, 'hash_seeds': [1, 7, 99, 4242, 31337],
                 'timeout_s': 9000, 'shrink_s': 120},
}

RULE = ('Each run is one history of <= 12 operations on a live Graph under a model (default / AMR / custom): the '
        'start state is decoded from generated text (markers present) or hand-built without markers (triples '
        'shuffled, Python int/float constants incl. 0, optional explicit top); operations are marker faults (drop '
        'one / a triple\'s / all layout markers or the whole epigraph, add Push(v) for any variable incl. the top '
        'and already pushed ones on any triple, add POPs, duplicate, swap, move, alias, reverse marker lists, stale '
        'entries for absent triples, fresh Pop() instances), reorderings of the triple log (swap, rotate, reverse, '
        'shuffle, sort, move), content edits (add attribute / edge / connected node / island, remove triple, set '
        'top), ill-formed edits (duplicate triple / instance, drop instance; totality clause only), restart '
        '(decode(encode(g))) and probes (encode from any variable, from a non-variable). After every operation '
        'encode runs under a line-step budget and is judged against union-find connectivity and multiset content '
        'references. distinct_nontrivial counts distinct (content-shape digest, sorted multiset of fault kinds since '
        'the last restart) pairs with at least one fault.')

REAL_VS_STUB = {
    'real': ['penman.encode / layout.configure / format / decode on the live object', 'penman.graph.Graph'],
    'simulated': ['the edit / fault history applied to g.triples and g.epidata', 'line-step clock (sys.settrace) '
                  'standing in for time in the termination clause', 'connectivity and content references'],
}
ASSUMPTIONS = [
    'No scheduling or I/O dimension in this property: the simulator contributes seeded fault/edit histories, per-step '
    'invariants, a step budget and minimised replayable traces.',
    'A Push marker naming a non-variable target is content (pinned test_encode), never injected as a fault; list-level '
    'faults move layout markers only (alignment markers are not layout markers).',
    'Variables are the sources plus an explicit top; "connected" is weak connectivity over non-instance triples whose '
    'target is a variable.',
    'Step budget 5000 + 50*(150*s + 12*s^2) line events, s = triples + markers (>= 50x the calibrated maximum).',
]
PROBES = ['start_decoded', 'start_handbuilt', 'restart', 'probe_other_top', 'probe_bad_top', 'disconnected_seen',
          'illformed_seen', 'layout_error_expected', 'push_on_top', 'push_already_pushed', 'zero_constant',
          'none_target', 'all_markers_dropped', 'improvised_rounds']

MIXES = {
    'markers': [(lc.MARKER_FAULTS, 6), (lc.REORDERINGS, 3), (['restart'], 1), (['probe_top'], 1)],
    'edits': [(lc.MARKER_FAULTS, 3), (lc.REORDERINGS, 2), (lc.CONTENT_EDITS, 4), (['restart'], 1),
              (['probe_top'], 1), (['probe_bad_top'], 0.3)],
    'illformed': [(lc.MARKER_FAULTS, 2), (lc.REORDERINGS, 2), (lc.CONTENT_EDITS, 2), (lc.ILLFORMED_EDITS, 3),
                  (['probe_top'], 1)],
}


def plan(rng, idx, tier):
    spec = rng.weighted([(gmodels.DEFAULT, 4), (gmodels.AMR, 3), (gmodels.custom(idx), 2)])
    start = lc.plan_start(rng.sub('start'), spec)
    mixname = rng.weighted([('markers', 5), ('edits', 4), ('illformed', 2)])
    n = 1 + rng.randrange(12)
    if idx % 300 in (101, 102, 103, 104):
        # sizes beyond the usual: thresholds in nesting depth, branches per node, rounds of the fallback loop
        sr = rng.sub('scale')
        start = [{'kind': 'deep_chain', 'n': sr.pick([105, 130, 160])},
                 {'kind': 'wide_node', 'n': sr.pick([34, 48, 70]), 'clash': sr.chance(0.5)},
                 {'kind': 'clash_chain', 'n': sr.pick([8, 14, 20])},
                 {'kind': 'deferred_leaves', 'm': sr.pick([5, 9, 14]), 'k': sr.pick([3, 4, 6]), 'n': 0}][idx % 300 - 101]
        mixname, n = 'markers', sr.randrange(4)
    ops = lc.plan_ops(rng.sub('ops'), n, MIXES[mixname])
    return {'property': ID, 'model': spec, 'start': start, 'mix': mixname, 'ops': ops,
            'indent': rng.pick([-1, None, 0, 2]), 'compact': rng.chance(0.2)}


def budget(g):
    s = len(g.triples) + lc.marker_count(g)
    return 5000 + 50 * (150 * s + 12 * s * s)


def execute(trace):
    import penman
    from penman.exceptions import LayoutError
    res = RunResult()
    spec = trace['model']
    model = gmodels.make_model(spec)
    mref = model_ref(spec)
    try:
        g = lc.make_start(trace['start'], model)
    except Exception as e:
        # the start state could not even be built (only possible for shrunk traces)
        res.event('start-failed', digest.canon_exc(e))
        return res
    res.hit('probe.start_' + trace['start']['kind'])
    faults = []
    state = {'g': g}
    indent, compact = trace.get('indent', -1), trace.get('compact', False)

    def check(tag, top=None, bad_top=False):
        g = state['g']
        facts = lc.state_facts(g, top)
        if any(t[2] in (0, 0.0) and not isinstance(t[2], str) for t in g.triples):
            res.hit('probe.zero_constant')
        if any(t[2] is None and t[1] != ':instance' for t in g.triples):
            res.hit('probe.none_target')
        sb = lc.StepBudget(budget(g))
        text = err = None
        try:
            with sb:
                text = penman.encode(g, top=top, model=model, indent=indent, compact=compact)
        except LayoutError as e:
            err = e
        except lc.BudgetExceeded:
            res.violate('I1-termination', 'step-budget-exceeded', budget=sb.limit, op=tag,
                        triples=[list(map(str, t)) for t in g.triples], markers=lc.canon_markers(g), top=top)
            state['dead'] = True     # the history ends here: any later encode of this state would not return either
            return False
        except Exception as e:
            res.violate('I4-totality', 'other-exception:' + type(e).__name__, error=digest.canon_exc(e), op=tag,
                        triples=[list(map(str, t)) for t in g.triples], markers=lc.canon_markers(g),
                        top=top, explicit_top=g._top)
            return False
        res.hit('step.line_events', sb.steps)
        if sb.steps * 50 > sb.limit:
            res.hit('probe.encode_used_over_2pct_of_step_budget')
        res.hit('step.encodes')
        res.event(tag, digest.sha(text) if text is not None else digest.canon_exc(err))
        if not g.triples:
            return err is None
        expect_fail = (not facts['top_is_variable']) or (not facts['connected'])
        if not facts['connected']:
            res.hit('probe.disconnected_seen')
        if not facts['well_formed']:
            res.hit('probe.illformed_seen')
        detail = {'op': tag, 'triples': [list(map(str, t)) for t in g.triples], 'markers': lc.canon_markers(g),
                  'top': top, 'explicit_top': g._top, 'well_formed': facts['well_formed'],
                  'connected': facts['connected']}
        if err is not None:
            if expect_fail:
                res.hit('probe.layout_error_expected')
                return False
            res.violate('I2-success' if facts['well_formed'] else 'I4-totality',
                        'layout-error-on-connected-graph', error=digest.canon_exc(err), **detail)
            return False
        if expect_fail:
            if not facts['top_has_triples'] and top is not None:
                return True      # explicit top without triples plus another requested top: not judged
            res.violate('I3-error-precision', 'no-layout-error-on-disconnected-or-bad-top', text=text, **detail)
            return True
        if facts['well_formed']:
            try:
                back = penman.decode(text, model=model)
            except Exception as e:
                res.violate('I2-content', 'output-not-decodable', error=digest.canon_exc(e), text=text, **detail)
                return True
            want = rcontent.content_of_triples(g.triples, facts['top'], mref)
            got = rcontent.content_of_graph(back, mref)
            if want != got:
                res.violate('I2-content', 'content-changed', diff=rcontent.content_diff(want, got), text=text,
                            **detail)
        return True

    check('start')
    for i, op in enumerate(trace['ops']):
        if state.get('dead'):
            break
        g = state['g']
        name = op['op']
        if name == 'restart':
            if not g.triples:
                continue      # '()' would come back with the variable None
            try:
                with lc.StepBudget(budget(g)):
                    state['g'] = penman.decode(penman.encode(g, model=model), model=model)
                faults = []
                res.hit('probe.restart')
            except lc.BudgetExceeded:
                break
            except Exception:
                continue
            check(f'{i}:restart')
            continue
        if name == 'probe_top':
            vs = lc._vars(g)
            if not vs or (g._top is not None and not any(t[0] == g._top for t in g.triples)):
                continue
            v = vs[op.get('a', 0) % len(vs)]
            res.hit('probe.probe_other_top')
            check(f'{i}:probe_top', top=v)
            continue
        if name == 'probe_bad_top':
            if not g.triples:
                continue
            res.hit('probe.probe_bad_top')
            bad = ['not-a-variable', '', 0, 0.0, 'not-a-variable-2', False][op.get('a', 0) % 6]
            if bad in set(lc._vars(g)):
                continue
            check(f'{i}:probe_bad_top', top=bad)
            continue
        if name == 'add_push_top':
            res.hit('probe.push_on_top')
        done = lc.apply_op(g, op)
        if done is None:
            continue
        res.hit('fault.' + done if done in lc.MARKER_FAULTS else 'step.' + (
            'reorder' if done in lc.REORDERINGS else 'edit'))
        if done in lc.MARKER_FAULTS or done in lc.REORDERINGS:
            faults.append(done)
        if done == 'drop_all_epidata' or done == 'drop_layout_markers':
            res.hit('probe.all_markers_dropped')
        check(f'{i}:{name}')
        if faults:
            shape = digest.sha([sorted(t[1] for t in state['g'].triples), len(lc._vars(state['g']))])
            res.cover.add(digest.dumps([shape, sorted(faults)]))
    res.hit('step.operations', len(trace['ops']))
    return res


def shrink(trace):
    yield from list_candidates(trace, ['ops'])
    st = trace['start']
    if st['kind'] == 'handbuilt':
        # remove one variable with everything that mentions it (keeps the list well-formed)
        triples = st['content']['triples']
        for v in sorted({t[0] for t in triples}, key=str):
            keep = [t for t in triples if t[0] != v and t[2] != v]
            if keep and len(keep) < len(triples) and st.get('top') != v:
                yield with_path(trace, ['start', 'content', 'triples'], keep)
        yield from list_candidates(trace, ['start', 'content', 'triples'])
        if st.get('pyconst'):
            yield with_path(trace, ['start', 'pyconst'], 0)
        if 'top' in st:
            s2 = dict(st)
            s2.pop('top')
            yield with_path(trace, ['start'], s2)
    elif st['kind'] == 'deferred_leaves':
        for key_ in ('m', 'k'):
            if st[key_] > 1:
                yield with_path(trace, ['start', key_], st[key_] - 1)
    elif st['kind'] in ('deep_chain', 'wide_node', 'clash_chain'):
        for smaller in (st['n'] // 2, st['n'] - 10, st['n'] - 1):
            if 2 <= smaller < st['n']:
                yield with_path(trace, ['start', 'n'], smaller)
    else:
        from .c09 import _tree_simplifications, _drop_branch
        for path, i in _tree_simplifications(st['tree']):
            yield with_path(trace, ['start', 'tree'], _drop_branch(st['tree'], path, i))
    for i, op in enumerate(trace['ops']):
        for key in ('a', 'b', 'c'):
            if op.get(key, 0) > 3:
                for small in (0, 1, 2, 3):
                    yield with_path(trace, ['ops', i, key], small)
    if trace.get('indent', -1) != -1:
        yield with_path(trace, ['indent'], -1)
    if trace.get('compact'):
        yield with_path(trace, ['compact'], False)


KNOWN = {}
