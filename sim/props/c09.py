"""C09 - the same text means the same graphs in every container and stream framing.

System simulated: loads / load(file object) / load(path) / iterdecode / iterparse /
dumps / dump(file object) / dump(path) over simulated raw devices beneath the
real CPython text and buffer layers, plus one real scratch file.
"""

import errno
import io
import os
import shutil
import tempfile

from ..core import digest
from ..core.minimise import list_candidates, with_path
from ..core.result import RunResult
from ..core.rng import Rng
from ..gen import content as gcontent
from ..gen import models as gmodels
from ..gen import text as gtext
from ..seams import simio

ID = 'C09'
HASHSEED_IS_VIOLATION = False

TIERS = {
    'quick': {'runs': 24000, 'replica_runs': 400, 'hash_seeds': [1, 4242], 'timeout_s': 1200, 'step_budget': 60_000_000,
              'stall_s': 240,
              'shrink_s': 40},
    'thorough': {'runs': 120000, 'replica_runs': 1600, 'hash_seeds': [1, 7, 99, 4242, 31337, 2**31],
                 'step_budget': 800_000_000, 'stall_s': 400,
                 'timeout_s': 9000, 'shrink_s': 120},
}

RULE = ('Each run plans an explicit trace: 0-4 generated well-formed graphs with metadata, a text '
        'style (indent, separator, final newline, newline convention LF/CRLF/CR/mixed), a set of '
        'containers (str, lists of lines without/with LF/with original terminators, lazy generator, '
        'StringIO, simulated file object, simulated path through the patched open with and without '
        'encoding, a real scratch file, interleaved lazy iterators), an I/O plan for the simulated raw '
        'device (read/write chunk sizes down to 1 byte, buffer and text-chunk sizes, EINTR positions) and '
        'possibly one error fault (EIO or premature EOF at byte k while reading; ENOSPC/EIO at byte k or an '
        'error at close while writing). Quick samples k; thorough additionally enumerates every k for '
        'texts <= 400 bytes in dedicated runs. distinct_nontrivial counts distinct tuples (mode, newline '
        'style, separator, final newline, fault kind, smallest chunk class, number of graphs, sorted set of '
        'probes fired) of runs that had a non-LF framing, a chunk size < 8, an EINTR or an error fault.')

REAL_VS_STUB = {
    'real': ['all of penman (lexer, parser, layout, codec load/loads/dump/dumps/iterdecode/iterparse)',
             'CPython io.TextIOWrapper and io.BufferedReader/BufferedWriter (newline translation, '
             'incremental UTF-8/UTF-16 decoding, EINTR retry, short-write loops)',
             'one real scratch file per run in the real-file container'],
    'simulated': ['raw byte devices (chunking, EINTR, EIO, premature EOF, ENOSPC, close errors)',
                  'file namespace (SimFS) behind penman.codec.open', 'order of next() calls on lazy iterators'],
}
ASSUMPTIONS = [
    'The meaning of a text is what penman.loads returns for it; every other container is compared with that.',
    'Metadata values are generated without "::", CR/LF and edge whitespace (not representable in the text).',
    'No clock exists in penman; no simulated time. CPython 3.12 only.',
    'Graph equality for dump/load round trips is top + triple multiset + ordered metadata (layout equality is C02, not claimed).',
]
PROBES = ['split_inside_crlf', 'split_inside_multibyte', 'eintr_retried', 'exotic_in_comment',
          'exotic_in_string', 'cr_only_file', 'unterminated_last_line', 'comment_before_eof',
          'zero_graphs', 'nbsp', 'empty_meta_value_crlf_kept', 'utf16', 'decode_error_reference',
          'yielded_prefix_nonempty', 'interleaved_iterators', 'stream_copy', 'copy_prefix_nonempty_after_read_error', 'results_annotated_by_user_code',
          'dump_with_encoding', 'format_sniffed_with_parse_triples']

CONTAINERS = ['lines', 'lines_lf', 'lines_keep', 'gen', 'tuple', 'stringio', 'simfile', 'simfile_raw', 'simtext',
              'simpath', 'simpath_enc', 'simpath_pathlib', 'realfile', 'iterparse_lines', 'iterparse_simfile']
CHUNK_CHOICES = [[1], [2], [3], [7], [64], [4096], [1, 2, 3], [5, 1], [1, 64]]
BUF_CHOICES = [1, 2, 3, 8, 16, 64, 8192]
TCHUNK_CHOICES = [1, 2, 5, 16, 64, 8192]
EXOTIC_CHARS = set(gtext.EXOTIC)


# --------------------------------------------------------------------------
# planning

def plan_graphs(rng, spec, exotic, many=False):
    big = rng.sub('big').chance(0.04)
    n = rng.weighted([(0, 1), (1, 4), (2, 4), (3, 2), (4, 1)]) if not big else 5 + rng.randrange(8)
    if many:
        # a long stream of tiny graphs (thresholds in the number of graphs, lines or bytes)
        big, n = False, rng.sub('many').pick([150, 400, 1000])
    graphs = []
    for i in range(n):
        r = rng.sub('g', i)
        ccfg = gcontent.ContentCfg(max_nodes=(1 if many else r.pick([1, 2, 3, 5])) if not big else r.pick([3, 6, 10, 14]), exotic=exotic * 0.5,
                                   p_none_target=0.03, p_inverted_attr=0.03)
        c = gcontent.gen_content(r, spec, ccfg)
        lcfg = gcontent.LayoutCfg(p_align=r.pick([0.0, 0.0, 0.3]))
        tree = gcontent.layout_tree(r.sub('layout'), c, spec, lcfg)
        meta = gtext.gen_metadata(r.sub('meta'), exotic=exotic)
        if rng.sub('huge', i).chance(0.004):
            # more than 64 Ki characters in one text (implementations switch strategy at such sizes)
            # (one physical line of 66 Ki, 135 Ki or 210 Ki characters: longer than one or two 64 Ki blocks)
            meta = meta + [['huge', ('z' + str(r.randrange(10)) + ' ') * (r.pick([22000, 45000, 70000]) + r.randrange(300)) + 'end']]
        if big and i == n // 2:
            # a long comment line so that the text crosses the 8 KiB buffer / chunk size at a seeded offset
            meta = meta + [['long', ('w' + str(r.randrange(10)) + ' ') * (2650 + r.randrange(120)) + 'end']]
        graphs.append({'tree': tree, 'meta': meta})
    return graphs


def io_plan(rng, hostile):
    if not hostile:
        return {'chunks': [4096], 'buffer_size': 8192, 'text_chunk': 8192}
    p = {'chunks': rng.pick(CHUNK_CHOICES), 'buffer_size': rng.pick(BUF_CHOICES),
         'text_chunk': rng.pick(TCHUNK_CHOICES)}
    if rng.chance(0.4):
        p['eintr_at'] = sorted({rng.randrange(40) for _ in range(1 + rng.randrange(3))})
    return p


def plan(rng, idx, tier):
    spec = rng.weighted([(gmodels.DEFAULT, 4), (gmodels.AMR, 3), (gmodels.NOOP, 1),
                         (gmodels.custom(idx), 1)])
    exotic = rng.pick([0.0, 0.0, 0.0, 0.3, 0.6])
    mode = rng.weighted([('benign', 6), ('read_fault', 2), ('write_fault', 2), ('interleave', 1), ('stream_copy', 2)])
    if tier == 'thorough' and idx % 10 == 0:
        mode = 'enumerate_faults'
    graphs = plan_graphs(rng.sub('graphs'), spec, exotic, many=(idx % 800 == 400))
    srng = rng.sub('style')
    style = {'nl': srng.chance(0.6), 'indent': srng.pick([0, 1, 3, 4]),
             'sep': srng.weighted([('blank', 4), ('newline', 3), ('space', 2), ('blank3', 1), ('tab', 1)]),
             'final_newline': srng.chance(0.7), 'meta_one_line': srng.chance(0.15)}
    if srng.chance(0.12):
        style['meta_gap'] = True
    if srng.chance(0.12):
        style['inner_blank'] = True
    if srng.chance(0.1):
        style['leading'] = srng.pick(['\n', '\n\n', '  ', '# leading comment\n', '\t\n', '\ufeff', '\ufeff\n'])
    if srng.chance(0.08):
        style['trailing'] = srng.pick(['\n', '# comment at EOF', '# comment at EOF\n', '   ', 'junk'])
    giant = idx % 6000 == 3000 and bool(graphs)
    if giant:
        # one text of more than 2**20 characters (strategies change at such sizes), half of them with bare-CR line ends
        graphs[0]['meta'] = [m_ for m_ in graphs[0]['meta'] if m_[0] != 'huge'] + \
            [['huge', 'z7 ' * (355000 + rng.sub('giant').randrange(500)) + 'end']]
        mode = 'benign'
    if style.get('leading', '').startswith('\ufeff') and mode != 'benign':
        # a text that starts with U+FEFF decodes to nothing (the decoder stops at the first token that cannot
        # start a graph) and is never read to its end: only the container comparison says anything about it
        mode = 'benign'
    newline = srng.weighted([('LF', 4), ('CRLF', 3), ('CR', 2), ('mixed', 2)])
    if giant and rng.sub('giantnl').chance(0.5):
        newline = 'CR'
    crng = rng.sub('containers')
    k = 3 + crng.randrange(5)
    containers = sorted(crng.sample(CONTAINERS, k), key=CONTAINERS.index)
    t = {
        'property': ID, 'mode': mode, 'model': spec, 'graphs': graphs, 'style': style,
        'debug_logging': rng.sub('dbg').chance(0.08),
        'newline': newline, 'mixseed': srng.randrange(1 << 30), 'containers': containers,
        'encoding': crng.weighted([('utf-8', 8), ('utf-16', 1)]),
        'dump_encoding': rng.sub('denc').weighted([(None, 6), ('utf-8', 1), ('utf-8-sig', 1), ('utf-16', 1), ('utf-32', 1),
                                                   ('utf-16-le', 1)]),
        'annotate_results': rng.sub('annot').chance(0.3),
        'sniff_format': rng.sub('sniff').chance(0.2),
        'read_plan': io_plan(rng.sub('rio'), rng.sub('rio?').chance(0.75)),
        'dump': {'indent': rng.sub('d').pick([-1, -1, None, 0, 1, 2, 3, 4]),
                 'compact': rng.sub('d2').chance(0.3),
                 'plan': io_plan(rng.sub('wio'), rng.sub('wio?').chance(0.75))},
    }
    if any(k_ == 'huge' for g_ in graphs for k_, _ in g_['meta']):
        # 66-210 Ki characters: byte-at-a-time device reads of such a text only cost time (small texts cover them)
        t['read_plan'] = {'chunks': [rng.sub('hugeio').pick([4096, 1000, 65536])], 'buffer_size': 8192, 'text_chunk': 8192}
        t['dump']['plan'] = {'chunks': [4096], 'buffer_size': 8192, 'text_chunk': 8192}
    frng = rng.sub('fault')
    if mode == 'read_fault':
        t['fault'] = {'kind': frng.pick(['EIO', 'EOF']), 'frac': frng.random(),
                      'via': frng.pick(['simfile', 'simpath'])}
    elif mode == 'write_fault':
        t['fault'] = {'kind': frng.pick(['ENOSPC', 'EIO', 'close']), 'frac': frng.random(),
                      'via': frng.pick(['simfile', 'simpath'])}
    elif mode == 'stream_copy':
        # dump(iterdecode(source), sink): a lazy decoder feeding the writer, faults on either side
        side = frng.weighted([(None, 3), ('read', 3), ('write', 3)])
        t['copy'] = {'source': frng.pick(['simfile', 'simfile', 'gen', 'simtext', 'graphs_gen']),
                     'sink': frng.pick(['simfile', 'simpath']), 'side': side, 'frac': frng.random(),
                     'kind': frng.pick(['EIO', 'EOF']) if side == 'read' else
                     (frng.pick(['ENOSPC', 'EIO', 'close']) if side == 'write' else None)}
    elif mode == 'interleave':
        n = 2 + frng.randrange(3)
        t['interleave'] = {'streams': [frng.pick(['gen', 'simfile', 'str', 'lines_keep', 'reversed_simfile'])
                                        for _ in range(n)],
                           'order': [frng.randrange(n) for _ in range(6 * n)]}
    return t


# --------------------------------------------------------------------------
# helpers

def build(trace):
    text_lf = gtext.build_text(trace['graphs'], trace['style'])
    return gtext.apply_newlines(text_lf, trace['newline'], Rng(trace.get('mixseed', 0)))


def _call(fn):
    try:
        return fn(), None
    except Exception as e:     # results to be compared, not harness failures
        return None, e


def canon_result(val, exc):
    if exc is not None:
        c = digest.canon_exc(exc)
        # the offending line's text naturally carries the container's own terminator, and
        # the end-of-input column counts a kept CR inside a final comment token: compare
        # class, message and line number only
        return c[:4] if c[1] == 'DecodeError' else c
    return [digest.canon(x) for x in val]


def canon_nolayout(val):
    """top + triple multiset + ordered metadata"""
    out = []
    for g in val:
        out.append({'top': g.top,
                    'triples': sorted(digest.dumps(digest.canon_triple(t)) for t in g.triples),
                    'metadata': [[k, v] for k, v in g.metadata.items()]})
    return out


class _Patched:
    def __init__(self, fs):
        self.fs = fs

    def __enter__(self):
        import penman.codec as cm
        cm.open = self.fs.open
        return self

    def __exit__(self, *a):
        import penman.codec as cm
        try:
            del cm.open
        except AttributeError:
            pass


def _reader(fs, path, trace, plan_d, newline=None, encoding=None):
    fh = fs.open(path, 'r', encoding=encoding or trace.get('encoding', 'utf-8'), newline=newline)
    tc = plan_d.get('text_chunk')
    if tc:
        fh._CHUNK_SIZE = max(1, tc)
    return fh


# --------------------------------------------------------------------------
# execution

def execute(trace):
    import logging
    if not trace.get('debug_logging'):
        return _execute(trace)
    lg = logging.getLogger('penman')
    lg.setLevel(logging.DEBUG)        # no handler needed: the code asks isEnabledFor(DEBUG)
    try:
        r = _execute(trace)
        r.hit('probe.debug_logging')
        return r
    finally:
        lg.setLevel(logging.NOTSET)


def _execute(trace):
    import penman
    res = RunResult()
    k = simio.Counters()
    model = gmodels.make_model(trace['model'])
    T = build(trace)
    enc = trace.get('encoding', 'utf-8')
    try:
        data = T.encode(enc)
    except UnicodeEncodeError:
        enc = 'utf-8'
        data = T.encode(enc)
    mode = trace.get('mode', 'benign')

    # probes about the text itself
    lines_plain = gtext.split_lines(T, False)
    if any(ch in EXOTIC_CHARS for ln in lines_plain for ch in ln if ln.lstrip().startswith('#')):
        res.hit('probe.exotic_in_comment')
    if any(ch in EXOTIC_CHARS for ln in lines_plain for ch in ln if not ln.lstrip().startswith('#')):
        res.hit('probe.exotic_in_string')
    if '\u00a0' in T or '\u3000' in T:
        res.hit('probe.nbsp')
    if trace['newline'] == 'CR' and '\r' in T:
        res.hit('probe.cr_only_file')
    if T and not T.endswith(('\n', '\r')):
        res.hit('probe.unterminated_last_line')
    if lines_plain and lines_plain[-1].lstrip().startswith('#'):
        res.hit('probe.comment_before_eof')
    if not trace['graphs']:
        res.hit('probe.zero_graphs')
    if enc == 'utf-16':
        res.hit('probe.utf16')

    # reference: the string container
    R, Rexc = _call(lambda: penman.loads(T, model=model))
    Rc = canon_result(R, Rexc)
    res.event('R', Rc)
    if Rexc is not None:
        res.hit('probe.decode_error_reference')
    Rt, Rtexc = _call(lambda: list(penman.iterparse(T)))
    Rtc = canon_result(Rt, Rtexc)
    if trace.get('sniff_format'):
        # "is this a triple conjunction? no - then it is PENMAN": format sniffing with the other parser of the
        # library, on the very lines that the containers below are about to decode
        _call(lambda: penman.parse_triples(T))
        for ln in lines_plain[:3]:
            _call(lambda: penman.parse_triples(ln))
        res.hit('probe.format_sniffed_with_parse_triples')
    if trace.get('annotate_results'):
        # what user code does with results it owns: annotate them in place.  Every later decode of the same text
        # (all containers below) must be unaffected by that
        from penman import layout as _layout
        own, _ = _call(lambda: list(penman.iterparse(T)))
        for tr in own or []:
            tr.metadata['annotator'] = 'user code'
            tr.metadata.pop('id', None)
        owng, _ = _call(lambda: penman.loads(T, model=model))
        for g_ in owng or []:
            g_.metadata['checked'] = 'yes'
            tt, _ = _call(lambda: _layout.configure(g_, model=model))
            if tt is not None:
                tt.metadata['laid-out'] = 'yes'
        _call(lambda: penman.parse('(no / comments :here (at / all))').metadata.update({'note': 'x'}))
        res.hit('probe.results_annotated_by_user_code')

    fs = simio.SimFS(k)
    rp = dict(trace.get('read_plan') or {})
    fs.put('/sim/in.penman', data, rp)

    def compare(name, got, exc, ref=Rc, what='graphs'):
        c = canon_result(got, exc)
        res.event(name, digest.sha(c))
        if c != ref:
            res.violate('container', 'differs-from-string-input', container=name, what=what,
                        text=T, expected=ref, got=c)

    if mode in ('benign', 'read_fault', 'write_fault', 'interleave', 'enumerate_faults', 'stream_copy'):
        for cname in trace.get('containers', []):
            run_container(cname, trace, T, data, enc, model, fs, rp, compare, Rtc, res)

    # independent expectation: the generated text is well-formed, so it decodes, and to exactly as
    # many graphs as were written (the reference above is the same code and would agree with itself)
    st = trace['style']
    if not st.get('trailing') and not st.get('leading', '').startswith(('#', '\ufeff')):
        if Rexc is not None:
            res.violate('count', 'well-formed-text-rejected', text=T, error=canon_result(None, Rexc))
        elif len(R) != len(trace['graphs']):
            res.violate('count', 'wrong-number-of-graphs', text=T, expected=len(trace['graphs']), got=len(R))
        else:
            for i, (g, spec) in enumerate(zip(R, trace['graphs'])):
                if g.top != spec['tree'][0]:
                    res.violate('count', 'wrong-top', index=i, text=T, expected=spec['tree'][0], got=g.top)
                    break

    # oracle 3: metadata stays with the graph that follows it
    if Rexc is None and len(R) == len(trace['graphs']) and not trace['style'].get('trailing') \
            and not trace['style'].get('leading', '').startswith(('#', '\ufeff')):
        for i, (g, spec) in enumerate(zip(R, trace['graphs'])):
            want = [[a, b] for a, b in spec.get('meta', [])]
            got = [[a, b] for a, b in g.metadata.items()]
            if got != want:
                res.violate('metadata', 'not-attached-to-following-graph', index=i, text=T,
                            expected=want, got=got)

    # oracle 2: dump / dumps round trips
    if Rexc is None:
        roundtrips(trace, R, model, fs, k, res)

    if mode == 'read_fault' and 'fault' in trace:
        read_fault(trace, trace['fault'], T, data, enc, model, k, res)
    elif mode == 'write_fault' and 'fault' in trace and Rexc is None:
        write_fault(trace, trace['fault'], R, model, k, res)
    elif mode == 'interleave' and 'interleave' in trace:
        interleave(trace, T, data, enc, model, k, res)
    elif mode == 'stream_copy' and 'copy' in trace and Rexc is None:
        stream_copy(trace, trace['copy'], T, data, enc, R, model, k, res)
    elif mode == 'enumerate_faults' and len(data) <= 400:
        for at in range(len(data)):
            for kind in ('EIO', 'EOF'):
                read_fault(trace, {'kind': kind, 'at': at, 'via': 'simfile'}, T, data, enc, model, k, res)
        if Rexc is None:
            clean = dump_bytes(R, model, trace['dump'])
            for at in range(len(clean) + 1):
                for kind in ('ENOSPC', 'EIO'):
                    write_fault(trace, {'kind': kind, 'at': at, 'via': 'simpath'}, R, model, k, res)

    for name, n in k.c.items():
        res.hit(name, n)
    if k.c.get('fault.read_eintr') or k.c.get('fault.write_eintr'):
        res.hit('probe.eintr_retried')
    # coverage signature
    chunks = (trace.get('read_plan') or {}).get('chunks') or [4096]
    nontrivial = (trace['newline'] != 'LF' or min(chunks) < 8 or mode != 'benign'
                  or any(x.startswith('fault.') for x in k.c))
    if nontrivial:
        probes = sorted(p for p in res.stats if p.startswith('probe.'))
        fk = (trace.get('fault') or {}).get('kind')
        res.cover.add(digest.dumps([mode, trace['newline'], trace['style'].get('sep'),
                                    trace['style'].get('final_newline'), fk, min(chunks),
                                    len(trace['graphs']), probes]))
    res.hit('step.operations', len(res.events))
    return res


def run_container(cname, trace, T, data, enc, model, fs, rp, compare, Rtc, res):
    import penman
    if cname == 'lines':
        got, exc = _call(lambda: list(penman.iterdecode(gtext.split_lines(T, False), model=model)))
    elif cname == 'lines_lf':
        got, exc = _call(lambda: list(penman.iterdecode(
            [ln + '\n' for ln in gtext.split_lines(T, False)], model=model)))
    elif cname == 'lines_keep':
        ls = gtext.split_lines(T, True)
        if any(ln.endswith('\r') or ln.endswith('\r\n') for ln in ls) and \
                any(not v for g in trace['graphs'] for _, v in g.get('meta', [])):
            res.hit('probe.empty_meta_value_crlf_kept')
        got, exc = _call(lambda: list(penman.iterdecode(ls, model=model)))
    elif cname == 'gen':
        got, exc = _call(lambda: list(penman.iterdecode(
            (ln + '\n' for ln in gtext.split_lines(T, False)), model=model)))
    elif cname == 'tuple':
        got, exc = _call(lambda: list(penman.iterdecode(tuple(gtext.split_lines(T, False)), model=model)))
    elif cname == 'stringio':
        # universal-newline StringIO; the default StringIO only frames at LF,
        # so it is used only when the text has no bare CR
        if trace['newline'] in ('LF', 'CRLF'):
            sio = io.StringIO(T)
        else:
            sio = io.StringIO(T, newline=None)
        got, exc = _call(lambda: penman.load(sio, model=model))
    elif cname == 'simfile':
        fh = _reader(fs, '/sim/in.penman', trace, rp, encoding=enc)
        got, exc = _call(lambda: penman.load(fh, model=model))
        fh.close()
    elif cname == 'simfile_raw':
        # a file opened with newline='': lines end at LF, CRLF and CR but are not translated
        fh = _reader(fs, '/sim/in.penman', trace, rp, newline='', encoding=enc)
        got, exc = _call(lambda: penman.load(fh, model=model))
        fh.close()
    elif cname == 'simtext':
        # a text stream that is not a TextIOWrapper (socket file, pipe wrapper): untranslated
        # terminators and short read()s at the character level
        st = SimTextStream(T, (rp.get('chunks') or [4096]))
        got, exc = _call(lambda: penman.load(st, model=model))
    elif cname == 'simpath':
        if enc != 'utf-8':
            return
        with _Patched(fs):
            got, exc = _call(lambda: penman.load(fs.real('/sim/in.penman'), model=model))
    elif cname == 'simpath_pathlib':
        import pathlib
        with _Patched(fs):
            got, exc = _call(lambda: penman.load(pathlib.Path(fs.real('/sim/in.penman')), model=model, encoding=enc))
    elif cname == 'simpath_enc':
        with _Patched(fs):
            got, exc = _call(lambda: penman.load(fs.real('/sim/in.penman'), model=model, encoding=enc))
    elif cname == 'realfile':
        d = tempfile.mkdtemp(prefix='vsim-c09-')
        try:
            p = os.path.join(d, 'in.penman')
            with open(p, 'wb') as fh:
                fh.write(data)
            got, exc = _call(lambda: penman.load(p, model=model, encoding=enc))
            res.hit('step.real_files')
        finally:
            shutil.rmtree(d, ignore_errors=True)
    elif cname == 'iterparse_lines':
        got, exc = _call(lambda: list(penman.iterparse(gtext.split_lines(T, True))))
        compare(cname, got, exc, ref=Rtc, what='trees')
        return
    elif cname == 'iterparse_simfile':
        fh = _reader(fs, '/sim/in.penman', trace, rp, encoding=enc)
        got, exc = _call(lambda: list(penman.iterparse(fh)))
        fh.close()
        compare(cname, got, exc, ref=Rtc, what='trees')
        return
    else:
        return
    compare(cname, got, exc)


def _diff(want, got):
    out = {'n_expected': len(want), 'n_got': len(got)}
    for i, (a, b) in enumerate(zip(want, got)):
        if a != b:
            d = {'index': i}
            if a['top'] != b['top']:
                d['top'] = [a['top'], b['top']]
            if a['metadata'] != b['metadata']:
                d['metadata'] = [a['metadata'], b['metadata']]
            ta, tb = list(a['triples']), list(b['triples'])
            for t in list(ta):
                if t in tb:
                    ta.remove(t)
                    tb.remove(t)
            if ta or tb:
                d['triples_only_expected'], d['triples_only_got'] = ta, tb
            out['first_difference'] = d
            break
    return out


class SimTextStream(io.TextIOBase):
    """File-like text source with its own framing: iteration / readline split at LF, CRLF and CR and
    keep the terminator; read(n) returns short chunks (cyclic plan), possibly ending between CR and LF."""

    def __init__(self, text, chunks):
        self.text, self.pos, self.chunks, self.calls = text, 0, list(chunks), 0

    def readable(self):
        return True

    def read(self, n=-1):
        size = self.chunks[self.calls % len(self.chunks)]
        self.calls += 1
        if n is None or n < 0:
            n = len(self.text)
        k = max(1, min(n, size))
        out = self.text[self.pos:self.pos + k]
        self.pos += len(out)
        return out

    def readline(self, size=-1):
        t, i = self.text, self.pos
        if i >= len(t):
            return ''
        j = i
        while j < len(t) and t[j] not in '\r\n':
            j += 1
        if j < len(t):
            j += 2 if t[j] == '\r' and t[j + 1:j + 2] == '\n' else 1
        self.pos = j
        return t[i:j]

    def __iter__(self):
        return self

    def __next__(self):
        line = self.readline()
        if not line:
            raise StopIteration
        return line


def dump_bytes(graphs, model, d):
    import penman
    sio = io.StringIO()
    penman.dump(graphs, sio, model=model, indent=d.get('indent', -1), compact=d.get('compact', False))
    return sio.getvalue().encode('utf-8')


def roundtrips(trace, R, model, fs, k, res):
    import penman
    d = trace['dump']
    indent, compact = d.get('indent', -1), d.get('compact', False)
    want = canon_nolayout(R)

    def check(name, got, exc):
        if exc is not None:
            res.event(name, digest.canon_exc(exc))
            res.violate('roundtrip', 'load-back-raised', via=name, error=digest.canon_exc(exc),
                        graphs=[digest.canon(g) for g in R])
            return
        c = canon_nolayout(got)
        res.event(name, digest.sha(c))
        if c != want:
            res.violate('roundtrip', 'load-back-differs', via=name, diff=_diff(want, c),
                        dump_options=[indent, compact], graphs=[digest.canon(g) for g in R])

    s, exc = _call(lambda: penman.dumps(R, model=model, indent=indent, compact=compact))
    if exc is not None:
        res.violate('roundtrip', 'dumps-raised', error=digest.canon_exc(exc),
                    graphs=[digest.canon(g) for g in R])
        return
    got, exc = _call(lambda: penman.loads(s, model=model))
    check('dumps', got, exc)
    # no blank-line separation: single newline, single space
    parts, exc = _call(lambda: [penman.encode(g, model=model, indent=indent, compact=compact) for g in R])
    if exc is None:
        for sepname, sep in (('newline', '\n'), ('space', ' '), ('nothing', '')):
            # no separation at all: a metadata comment may directly follow the previous graph's ")"
            got, exc2 = _call(lambda: penman.loads(sep.join(parts), model=model))
            check('join_' + sepname, got, exc2)
    # dump to a simulated file object
    wp = dict(d.get('plan') or {})
    fs.plans['/sim/out1.penman'] = wp
    fs.plans['/sim/out2.penman'] = wp
    fh = fs.open('/sim/out1.penman', 'w', encoding='utf-8')
    _, exc = _call(lambda: penman.dump(R, fh, model=model, indent=indent, compact=compact))
    _, exc2 = _call(fh.close)
    if exc or exc2:
        res.violate('roundtrip', 'dump-raised', via='file object',
                    error=digest.canon_exc(exc or exc2))
        return
    b1 = fs.durable('/sim/out1.penman')
    # the named file already exists with other content: dump must replace it, also with zero graphs
    fs.put('/sim/out2.penman', b'(stale / content :of (an / earlier-dump))\n', wp)
    with _Patched(fs):
        _, exc = _call(lambda: penman.dump(R, fs.real('/sim/out2.penman'), model=model, indent=indent,
                                           compact=compact))
    if exc:
        res.violate('roundtrip', 'dump-raised', via='path', error=digest.canon_exc(exc))
        return
    b2 = fs.durable('/sim/out2.penman')
    import pathlib
    fs.plans['/sim/out3.penman'] = wp
    with _Patched(fs):
        _, exc = _call(lambda: penman.dump(R, pathlib.Path(fs.real('/sim/out3.penman')), model=model, indent=indent,
                                           compact=compact))
    if exc or not fs.exists('/sim/out3.penman') or fs.durable('/sim/out3.penman') != b2:
        res.violate('roundtrip', 'dump-to-pathlib-path-differs', error=digest.canon_exc(exc) if exc else None,
                    created=fs.exists('/sim/out3.penman'), n_graphs=len(R))
        return
    denc = trace.get('dump_encoding')
    if denc:
        # dump(path, encoding=E) then load(path, encoding=E): byte-order marks and multi-byte units are the codec's
        # business, once per file
        fs.plans['/sim/out4.penman'] = wp
        with _Patched(fs):
            _, exc = _call(lambda: penman.dump(R, fs.real('/sim/out4.penman'), model=model, indent=indent, compact=compact,
                                               encoding=denc))
            got, exc2 = (None, exc) if exc else _call(lambda: penman.load(fs.real('/sim/out4.penman'), model=model, encoding=denc))
        res.hit('probe.dump_with_encoding')
        if exc:
            res.violate('roundtrip', 'dump-raised', via='path with encoding ' + denc, error=digest.canon_exc(exc))
            return
        check('dump_path_encoding_' + denc, got, exc2)
        want_bytes = b2.decode('utf-8').encode(denc) if b2 else b''      # nothing written, no byte-order mark either
        if fs.durable('/sim/out4.penman') != want_bytes:
            res.violate('roundtrip', 'dump-with-encoding-is-not-the-encoded-text', encoding=denc,
                        expected_bytes=len(want_bytes), got_bytes=len(fs.durable('/sim/out4.penman')),
                        head=fs.durable('/sim/out4.penman')[:80].hex())
    if [m for p, m in fs.opened if p == '/sim/out2.penman'] and \
            'w' not in [m for p, m in fs.opened if p == '/sim/out2.penman']:
        res.violate('roundtrip', 'dump-path-not-opened-for-writing', opened=fs.opened)
    if trace.get('run', 0) % 8 == 1 or trace.get('real_dump'):
        # the same on the real file system: the named file exists already and is longer than the dump
        d_ = tempfile.mkdtemp(prefix='vsim-c09-')
        try:
            p_ = os.path.join(d_, 'out.penman')
            with open(p_, 'wb') as fh_:
                fh_.write(b'(stale / content :of (an / earlier-dump))\n' * 40 + b1)
            _, exc = _call(lambda: penman.dump(R, p_, model=model, indent=indent, compact=compact, encoding='utf-8'))
            with open(p_, 'rb') as fh_:
                b3 = fh_.read()
            res.hit('step.real_files')
            if exc or b3 != b1:
                res.violate('roundtrip', 'dump-to-existing-real-file-differs', error=digest.canon_exc(exc) if exc else None,
                            expected_bytes=len(b1), got_bytes=len(b3), tail=b3[-120:].decode('utf-8', 'replace'))
                return
        finally:
            shutil.rmtree(d_, ignore_errors=True)
    res.event('dump_bytes', digest.sha(b1.hex()), digest.sha(b2.hex()))
    if b1 != b2:
        res.violate('roundtrip', 'dump-path-vs-fileobject-bytes-differ', a=b1.decode('utf-8', 'replace'),
                    b=b2.decode('utf-8', 'replace'))
    if b1 == (s + '\n').encode('utf-8') or (not R and b1 == b''):
        res.hit('probe.dump_bytes_equal_dumps')
    for name, b in (('dump_fileobj', b1), ('dump_path', b2)):
        fs.put('/sim/back.penman', b, trace.get('read_plan'))
        fh = _reader(fs, '/sim/back.penman', trace, trace.get('read_plan') or {}, encoding='utf-8')
        got, exc = _call(lambda: penman.load(fh, model=model))
        fh.close()
        check(name, got, exc)
        if name == 'dump_path':
            with _Patched(fs):
                got, exc = _call(lambda: penman.load(fs.real('/sim/back.penman'), model=model))
            check('dump_path_load_path', got, exc)


def _fault_at(f, n):
    if 'at' in f:
        return max(0, min(int(f['at']), n))
    return max(0, min(int(f.get('frac', 0.5) * (n + 1)), n))


def read_fault(trace, f, T, data, enc, model, k, res):
    """EIO or premature EOF at byte k while a lazy iterator is being consumed."""
    import penman
    at = _fault_at(f, max(0, len(data) - 1))
    if at >= len(data):
        return
    rp = dict(trace.get('read_plan') or {})
    rp.update({'error_at': at, 'error_kind': f['kind']})
    fs = simio.SimFS(k)
    fs.put('/sim/f.penman', data, rp)
    # reference: what the fault-free prefix means
    yielded = []
    exc = None
    fh = _reader(fs, '/sim/f.penman', trace, rp, encoding=enc)
    try:
        for g in penman.iterdecode(fh, model=model):
            yielded.append(g)
    except Exception as e:
        exc = e
    if f.get('via') == 'simpath' and f['kind'] == 'EIO':
        # the eager path API on the same faulty device: the error must surface from load()
        with _Patched(fs):
            _, lexc = _call(lambda: penman.load(fs.real('/sim/f.penman'), model=model, encoding=enc))
        if '/sim/f.penman' not in [p_ for p_, _ in fs.opened[1:]]:
            # load(path) did not open the file through the shadowed open: no fault could be injected
            res.hit('probe.fault_not_injectable_open_seam_bypassed')
        elif not (isinstance(lexc, OSError) and lexc.errno == errno.EIO):
            res.violate('read_fault', 'injected-EIO-did-not-surface', at=at, text=T, api='load(path)',
                        surfaced=digest.canon_exc(lexc) if lexc else None)
    raw_ = getattr(getattr(fh, 'buffer', None), 'raw', None)
    reached = bool(getattr(raw_, 'error_fired', True))
    try:
        fh.close()
    except Exception:
        pass
    res.event('read_fault', f['kind'], at, len(yielded), digest.canon_exc(exc) if exc else None)
    if not reached:
        # the decoder stopped reading before the faulty offset (it ends at the first token that cannot start a
        # graph): the fault never happened, there is nothing to surface
        res.hit('probe.read_fault_beyond_what_was_read')
        return
    if yielded:
        res.hit('probe.yielded_prefix_nonempty')
    if f['kind'] == 'EIO':
        # reference for the prefix: line-framed decode of the full text
        full, fexc = _call(lambda: list(penman.iterdecode(
            [ln + '\n' for ln in gtext.split_lines(T, False)], model=model)))
        if not (isinstance(exc, OSError) and exc.errno == errno.EIO):
            res.violate('read_fault', 'injected-EIO-did-not-surface', at=at, text=T,
                        surfaced=digest.canon_exc(exc) if exc else None, yielded=len(yielded))
        if fexc is None:
            got = [digest.canon(g) for g in yielded]
            want = [digest.canon(g) for g in full][:len(got)]
            if got != want:
                res.violate('read_fault', 'yielded-graphs-not-a-prefix', at=at, text=T,
                            expected=want, got=got)
    else:
        prefix = data[:at]
        try:
            ptext = prefix.decode(enc)
            dec_err = None
        except UnicodeDecodeError as e:
            ptext, dec_err = None, e
        if dec_err is not None:
            if not isinstance(exc, UnicodeDecodeError):
                res.violate('read_fault', 'truncated-sequence-not-reported', at=at, text=T,
                            surfaced=digest.canon_exc(exc) if exc else None)
            return
        ref, rexc = _call(lambda: list(penman.iterdecode(
            [ln + '\n' for ln in gtext.split_lines(ptext, False)], model=model)))
        got = [digest.canon(g) for g in yielded]
        if rexc is not None:
            # the truncated text is not decodable as a whole: the same error class must surface
            if exc is None or type(exc) is not type(rexc):
                res.violate('read_fault', 'premature-eof-differs-from-truncated-text', at=at,
                            text=T, expected=digest.canon_exc(rexc),
                            surfaced=digest.canon_exc(exc) if exc else None)
            return
        want = [digest.canon(g) for g in ref]
        if exc is not None or got != want:
            res.violate('read_fault', 'premature-eof-differs-from-truncated-text', at=at, text=T,
                        expected=want, got=got, surfaced=digest.canon_exc(exc) if exc else None)


def write_fault(trace, f, R, model, k, res):
    import penman
    d = trace['dump']
    indent, compact = d.get('indent', -1), d.get('compact', False)
    clean, cexc = _call(lambda: dump_bytes(R, model, d))
    if cexc is not None:
        return
    wp = dict(d.get('plan') or {})
    if f['kind'] == 'close':
        wp['close_error'] = True
        at = None
    else:
        at = _fault_at(f, len(clean))
        wp.update({'error_at': at, 'error_kind': f['kind']})
    fs = simio.SimFS(k)
    fs.plans['/sim/w.penman'] = wp
    excs = []
    if f.get('via') == 'simpath':
        with _Patched(fs):
            _, e = _call(lambda: penman.dump(R, fs.real('/sim/w.penman'), model=model, indent=indent, compact=compact))
        excs.append(e)
        own = True
    else:
        fh = fs.open('/sim/w.penman', 'w', encoding='utf-8')
        _, e = _call(lambda: penman.dump(R, fh, model=model, indent=indent, compact=compact))
        excs.append(e)
        _, e2 = _call(fh.close)
        excs.append(e2)
        own = False
    raw = fs.writers.get('/sim/w.penman')
    fired = bool(raw is not None and raw.error_fired)
    durable = bytes(raw.durable) if raw is not None else b''
    if raw is None and fs.exists('/sim/w.penman'):
        # written without going through the shadowed open: no fault could be injected, judge what is on disk
        durable = fs.durable('/sim/w.penman')
    res.event('write_fault', f['kind'], at, fired, len(durable),
              [digest.canon_exc(e) if e else None for e in excs])
    if not clean.startswith(durable):
        res.violate('write_fault', 'durable-bytes-not-a-prefix', at=at,
                    clean=clean.decode('utf-8', 'replace'), durable=durable.decode('utf-8', 'replace'))
    if fired:
        want_errno = {'ENOSPC': errno.ENOSPC, 'EIO': errno.EIO, 'close': errno.EIO}[f['kind']]
        surfaced = [e for e in excs if isinstance(e, OSError) and e.errno == want_errno]
        if not surfaced or (own and not (isinstance(excs[0], OSError) and excs[0].errno == want_errno)):
            res.violate('write_fault', 'injected-write-error-did-not-surface', kind=f['kind'], at=at,
                        surfaced=[digest.canon_exc(e) if e else None for e in excs])
    else:
        if any(excs):
            res.violate('write_fault', 'error-without-fault', kind=f['kind'], at=at,
                        surfaced=[digest.canon_exc(e) if e else None for e in excs])
        elif durable != clean:
            res.violate('write_fault', 'clean-write-differs', at=at)


class _SourceError(OSError):
    pass


def stream_copy(trace, c, T, data, enc, R, model, k, res):
    """dump(iterdecode(source), sink): the reader is lazy, so reading and writing alternate graph by graph.
    Fault-free: the sink holds exactly what dump(list) writes.  A fault on either side surfaces from dump() as
    the injected error, and what became durable in the sink is a prefix of the fault-free output."""
    import penman
    d = trace['dump']
    indent, compact = d.get('indent', -1), d.get('compact', False)
    clean, cexc = _call(lambda: dump_bytes(R, model, d))
    if cexc is not None:
        return
    side, kind = c.get('side'), c.get('kind')
    rp = dict(trace.get('read_plan') or {})
    wp = dict(d.get('plan') or {})
    at = None
    if side == 'read':
        at = _fault_at(c, max(0, len(data) - 1))
        if at >= len(data):
            side = None
    if side == 'write':
        if kind == 'close':
            wp['close_error'] = True
        else:
            at = _fault_at(c, len(clean))
            wp.update({'error_at': at, 'error_kind': kind})
    fs = simio.SimFS(k)
    src_kind = c.get('source', 'simfile')
    lines = gtext.split_lines(T, True)
    fh_in = None
    line_at = None
    if src_kind == 'simfile':
        if side == 'read':
            rp.update({'error_at': at, 'error_kind': kind})
        fs.put('/sim/cin.penman', data, rp)
        fh_in = _reader(fs, '/sim/cin.penman', trace, rp, encoding=enc)
        source = penman.iterdecode(fh_in, model=model)
    else:
        # character-level sources: the fault is "the producer of lines fails / stops after line j"
        if side == 'read':
            if lines:
                line_at = min(len(lines) - 1, int(c.get('frac', 0.5) * len(lines)))
            else:
                side = None      # nothing is ever read: no place for the fault

        def produce():
            for j, ln in enumerate(lines):
                if line_at is not None and j >= line_at:
                    if kind == 'EIO':
                        k.hit('fault.source_generator_error')
                        raise _SourceError(errno.EIO, 'simulated failure of the line producer')
                    k.hit('fault.source_generator_stops')
                    return
                yield ln
        if src_kind == 'simtext' and side != 'read':
            source = penman.iterdecode(SimTextStream(T, (rp.get('chunks') or [4096])), model=model)
        elif src_kind == 'graphs_gen':
            # a generator of graphs that decodes each text block on demand
            source = (g for g in penman.iterdecode(produce(), model=model))
        else:
            source = penman.iterdecode(produce(), model=model)
    fs.plans['/sim/cout.penman'] = wp
    excs = []
    if c.get('sink') == 'simpath':
        with _Patched(fs):
            _, e = _call(lambda: penman.dump(source, fs.real('/sim/cout.penman'), model=model, indent=indent, compact=compact))
        excs.append(e)
    else:
        fh_out = fs.open('/sim/cout.penman', 'w', encoding='utf-8')
        _, e = _call(lambda: penman.dump(source, fh_out, model=model, indent=indent, compact=compact))
        excs.append(e)
        _, e2 = _call(fh_out.close)
        excs.append(e2)
    if fh_in is not None:
        _call(fh_in.close)
    raw = fs.writers.get('/sim/cout.penman')
    durable = bytes(raw.durable) if raw is not None else None
    if raw is None and fs.exists('/sim/cout.penman'):
        durable = fs.durable('/sim/cout.penman')      # written outside the shadowed open
    wfired = bool(raw is not None and raw.error_fired)
    res.hit('probe.stream_copy')
    res.event('stream_copy', src_kind, c.get('sink'), side, kind, at, line_at, None if durable is None else len(durable),
              [digest.canon_exc(e) if e else None for e in excs])
    detail = {'copy': c, 'text': T, 'surfaced': [digest.canon_exc(e) if e else None for e in excs],
              'durable': None if durable is None else durable.decode('utf-8', 'replace')[-600:]}
    if durable is None:
        res.violate('stream_copy', 'sink-never-opened', **detail)
        return
    if side is None or (side == 'write' and not wfired):
        if any(excs):
            res.violate('stream_copy', 'error-without-fault', **detail)
        elif durable != clean:
            res.violate('stream_copy', 'copy-differs-from-dump-of-the-loaded-list', clean=clean.decode('utf-8', 'replace')[-600:],
                        **detail)
        return
    if side == 'write':
        want_errno = errno.ENOSPC if kind == 'ENOSPC' else errno.EIO
        if not clean.startswith(durable):
            res.violate('stream_copy', 'durable-bytes-not-a-prefix', clean=clean.decode('utf-8', 'replace')[-600:], **detail)
        if not any(isinstance(e, OSError) and e.errno == want_errno for e in excs) or \
                (c.get('sink') == 'simpath' and not (isinstance(excs[0], OSError) and excs[0].errno == want_errno)):
            res.violate('stream_copy', 'injected-write-error-did-not-surface', **detail)
        return
    # read side
    if kind == 'EIO':
        if not (isinstance(excs[0], OSError) and excs[0].errno == errno.EIO):
            res.violate('stream_copy', 'injected-read-error-did-not-surface', **detail)
        if not clean.startswith(durable):
            res.violate('stream_copy', 'durable-bytes-not-a-prefix', clean=clean.decode('utf-8', 'replace')[-600:], **detail)
        if durable:
            res.hit('probe.copy_prefix_nonempty_after_read_error')
        return
    # the source simply ends early: the copy is the copy of the truncated text
    if src_kind == 'simfile':
        try:
            ptext = data[:at].decode(enc)
        except UnicodeDecodeError:
            if not isinstance(excs[0], UnicodeDecodeError):
                res.violate('stream_copy', 'truncated-sequence-not-reported', **detail)
            return
        plines = [ln + '\n' for ln in gtext.split_lines(ptext, False)]
    else:
        plines = lines[:line_at]
    ref, rexc = _call(lambda: list(penman.iterdecode(plines, model=model)))
    if rexc is not None:
        if excs[0] is None or type(excs[0]) is not type(rexc):
            res.violate('stream_copy', 'premature-end-differs-from-truncated-text', expected=digest.canon_exc(rexc), **detail)
        elif not clean.startswith(durable):
            res.violate('stream_copy', 'durable-bytes-not-a-prefix', clean=clean.decode('utf-8', 'replace')[-600:], **detail)
        return
    want, _ = _call(lambda: dump_bytes(ref, model, d))
    if any(excs) or durable != want:
        res.violate('stream_copy', 'premature-end-differs-from-truncated-text',
                    expected=(want or b'').decode('utf-8', 'replace')[-600:], **detail)


def interleave(trace, T, data, enc, model, k, res):
    """k lazy decoders over k streams advanced in a seeded order (cooperative tasks)."""
    import penman
    spec = trace['interleave']
    rev_graphs = list(reversed(trace['graphs']))
    Trev = gtext.apply_newlines(gtext.build_text(rev_graphs, trace['style']), trace['newline'],
                                Rng(trace.get('mixseed', 0)))
    fs = simio.SimFS(k)
    rp = dict(trace.get('read_plan') or {})
    iters, refs, fhs = [], [], []
    for i, kind in enumerate(spec['streams']):
        text = Trev if kind == 'reversed_simfile' else T
        ref, rexc = _call(lambda: penman.loads(text, model=model))
        refs.append(canon_result(ref, rexc))
        if kind == 'gen':
            src = (ln + '\n' for ln in gtext.split_lines(text, False))
        elif kind == 'str':
            src = text
        elif kind == 'lines_keep':
            src = gtext.split_lines(text, True)
        else:
            path = f'/sim/s{i}.penman'
            try:
                b = text.encode(enc)
                e = enc
            except UnicodeEncodeError:
                b, e = text.encode('utf-8'), 'utf-8'
            fs.put(path, b, rp)
            src = _reader(fs, path, trace, rp, encoding=e)
            fhs.append(src)
        iters.append(penman.iterdecode(src, model=model))
    outs = [[] for _ in iters]
    done = [None] * len(iters)
    order = list(spec['order'])
    # after the planned order, drain round-robin
    step = 0
    while not all(d is not None for d in done):
        i = order[step] % len(iters) if step < len(order) else step % len(iters)
        step += 1
        if done[i] is not None:
            if step > len(order) + (50 + 2 * len(trace['graphs'])) * len(iters) + 500:
                break
            continue
        try:
            outs[i].append(next(iters[i]))
        except StopIteration:
            done[i] = 'end'
        except Exception as e:
            done[i] = e
    res.hit('probe.interleaved_iterators')
    res.hit('step.context_switches', step)
    for fh in fhs:
        try:
            fh.close()
        except Exception:
            pass
    for i, kind in enumerate(spec['streams']):
        exc = done[i] if isinstance(done[i], Exception) else None
        if exc is not None:
            got = canon_result(None, exc)
        else:
            got = [digest.canon(g) for g in outs[i]]
        res.event('interleave', i, kind, digest.sha(got))
        if got != refs[i]:
            res.violate('interleave', 'stream-result-differs', stream=i, kind=kind,
                        order=spec['order'], expected=refs[i], got=got, text=T)


# --------------------------------------------------------------------------
# shrinking

def _tree_simplifications(node, path=()):
    """Yield (path-to-branches, index) for every branch in the tree."""
    var, branches = node
    for i, (role, tgt) in enumerate(branches):
        yield path, i
        if isinstance(tgt, list):
            yield from _tree_simplifications(tgt, path + (i,))


def _drop_branch(tree, path, i):
    import copy
    t = copy.deepcopy(tree)
    node = t
    for p in path:
        node = node[1][p][1]
    del node[1][i]
    return t


def shrink(trace):
    yield from list_candidates(trace, ['graphs'])
    yield from list_candidates(trace, ['containers'])
    if trace.get('mode') not in ('benign',):
        t = dict(trace)
        if trace['mode'] == 'enumerate_faults':
            pass
        else:
            t2 = with_path(trace, ['mode'], 'benign')
            t2.pop('fault', None)
            t2.pop('interleave', None)
            yield t2
    for gi, g in enumerate(trace.get('graphs', [])):
        yield from list_candidates(trace, ['graphs', gi, 'meta'])
        for path, i in _tree_simplifications(g['tree']):
            yield with_path(trace, ['graphs', gi, 'tree'], _drop_branch(g['tree'], path, i))
    if trace.get('newline') != 'LF':
        yield with_path(trace, ['newline'], 'LF')
        if trace.get('newline') == 'mixed':
            yield with_path(trace, ['newline'], 'CRLF')
            yield with_path(trace, ['newline'], 'CR')
    simple_style = {'nl': False, 'indent': 3, 'sep': 'blank', 'final_newline': True}
    if trace.get('style') != simple_style:
        yield with_path(trace, ['style'], simple_style)
        for key in list(trace['style']):
            if trace['style'][key] != simple_style.get(key):
                s = dict(trace['style'])
                if key in simple_style:
                    s[key] = simple_style[key]
                else:
                    s.pop(key)
                yield with_path(trace, ['style'], s)
    benign = {'chunks': [4096], 'buffer_size': 8192, 'text_chunk': 8192}
    if trace.get('read_plan') != benign:
        yield with_path(trace, ['read_plan'], benign)
    if trace.get('dump', {}).get('plan') != benign:
        yield with_path(trace, ['dump', 'plan'], benign)
    if trace.get('encoding') != 'utf-8':
        yield with_path(trace, ['encoding'], 'utf-8')
    if trace.get('dump', {}).get('indent') != -1:
        yield with_path(trace, ['dump', 'indent'], -1)
    if trace.get('dump', {}).get('compact'):
        yield with_path(trace, ['dump', 'compact'], False)
    if 'interleave' in trace:
        yield from list_candidates(trace, ['interleave', 'order'])
    f = trace.get('fault')
    if f and 'frac' in f:
        for frac in (0.0, 0.25, 0.5):
            if frac < f['frac']:
                yield with_path(trace, ['fault', 'frac'], frac)


KNOWN = {}
