"""C05 - re-layout operations never change the graph.

System simulated: the life of one Graph that still carries the markers of an
earlier layout while it is reconfigured under every key (the `random` key
drawing from a simulator-owned PRNG stream, seam S8), rearranged, re-topped,
its triple log reordered and its markers lost (stale markers, seam S9).
"""

import copy

from ..core import digest
from ..core.minimise import list_candidates, with_path
from ..core.result import RunResult
from ..gen import content as gcontent
from ..gen import models as gmodels
from ..ref import content as rcontent
from ..ref import rearrange as rrearrange
from ..ref.roles import model_ref
from ..seams import simrandom
from . import lifecycle as lc

ID = 'C05'
HASHSEED_IS_VIOLATION = False

TIERS = {
    'quick': {'runs': 48000, 'replica_runs': 600, 'hash_seeds': [1, 4242], 'timeout_s': 1200, 'shrink_s': 40},
    'thorough': {'runs': 400000, 'replica_runs': 3000, 'hash_seeds': [1, 7, 99, 4242, 31337],
                 'timeout_s': 9000, 'shrink_s': 120},
}

RULE = ('Each run: a model (default / AMR / custom), a start graph (decoded, hence carrying markers, or hand-built), then '
        '<= 8 operations from: reconfigure under key none/original/alphanumeric/canonical/random with or without a new '
        'top (optionally adopting the new layout), configure + rearrange under any combination of '
        'canonical/alphanumeric/inverted-last/random with or without attributes-first, encode from another variable, '
        'restart, reordering of the triple log and marker loss (so the next re-layout meets stale markers). The random '
        'key draws from a simulator-owned stream: seeded uniform, constant (all ties), strictly decreasing, two-valued. '
        'After every re-layout the content (top, variables, triple multiset up to one deinversion) must equal the '
        'reference content; rearrange is additionally judged per node (branch multiset, concept first, order by an '
        'independently written key, stability for ties). distinct_nontrivial counts distinct (model kind, start kind, '
        'operation with its key and stream mode, number of stale-marker faults before it) tuples.')

REAL_VS_STUB = {
    'real': ['penman.layout.reconfigure / configure / rearrange / interpret, penman.encode / decode, Model.*_order'],
    'simulated': ['the global PRNG behind Model.random_order (seam S8)', 'reorderings and marker loss between '
                  're-layouts (seam S9)', 'content and sort-key references'],
}
ASSUMPTIONS = [
    'No scheduling or I/O dimension; the simulator owns the PRNG stream and the stale-marker history.',
    'Sortedness/stability clauses are pure; they are asserted on the trees the histories produce. Role alignments are '
    'not generated here (a role text with an alignment suffix has no documented sort key).',
    'With a random key only ties (constant stream) have a reference order; otherwise content, branch multiset and '
    'concept position are judged.',
]
PROBES = ['reconfigure_random', 'reconfigure_new_top', 'rearrange_attributes_first', 'rearrange_numeric_suffix',
          'rearrange_inverted_last', 'constant_stream_ties', 'stale_markers_before_relayout', 'encode_other_top',
          'adopted_layout', 'restart', 'start_decoded', 'start_handbuilt']

RECONF_KEYS = [None, 'original', 'alphanumeric', 'canonical', 'random']
REARR_KEYS = ['canonical', 'alphanumeric', 'inverted-last', 'random', 'original']
STALE = ['swap_triples', 'rotate', 'reverse', 'shuffle', 'sort_by_role', 'move_triple', 'drop_marker',
         'drop_triple_markers', 'drop_layout_markers']


def plan(rng, idx, tier):
    spec = rng.weighted([(gmodels.DEFAULT, 3), (gmodels.AMR, 4), (gmodels.custom(idx), 2)])
    ccfg = gcontent.ContentCfg(max_nodes=rng.weighted([(1, 2), (2, 3), (3, 3), (4, 3), (5, 3), (6, 3), (10, 1), (14, 1)]),
                               p_none_target=0.02, p_inverted_attr=0.03, max_attrs=rng.weighted([(3, 6), (6, 1)]))
    start = lc.plan_start(rng.sub('start'), spec, ccfg=ccfg,
                          lcfg=gcontent.LayoutCfg(p_align=0.0))
    ops = []
    r = rng.sub('ops')
    for i in range(1 + r.randrange(8)):
        kind = r.weighted([('reconfigure', 4), ('rearrange', 4), ('encode_top', 2), ('restart', 1), ('stale', 4)])
        op = {'op': kind, 'a': r.randrange(1000), 'b': r.randrange(1000), 'c': r.randrange(1000)}
        if kind == 'reconfigure':
            op['key'] = r.pick(RECONF_KEYS)
            op['new_top'] = r.chance(0.3)
            op['adopt'] = r.chance(0.4)
        elif kind == 'rearrange':
            op['keys'] = r.sample(REARR_KEYS, r.weighted([(0, 1), (1, 5), (2, 2)]))
            op['attributes_first'] = r.chance(0.4)
            op['adopt'] = r.chance(0.4)
        elif kind == 'stale':
            op['op'] = r.pick(STALE)
        if kind in ('reconfigure', 'rearrange'):
            op['stream'] = {'mode': r.pick(['seeded', 'constant', 'decreasing', 'two']), 'seed': r.randrange(1 << 30)}
        ops.append(op)
    return {'property': ID, 'model': spec, 'start': start, 'ops': ops}


def node_branches(node, out=None):
    out = [] if out is None else out
    var, branches = node
    out.append((var, list(branches)))
    for role, tgt in branches:
        if not (tgt is None or isinstance(tgt, (str, int, float))):
            node_branches(tgt, out)
    return out


def branch_id(b):
    role, tgt = b
    if tgt is None or isinstance(tgt, (str, int, float)):
        return (role, 'A', str(tgt))
    return (role, 'N', tgt[0])


def execute(trace):
    import penman
    from penman import layout
    res = RunResult()
    spec = trace['model']
    model = gmodels.make_model(spec)
    mref = model_ref(spec)
    try:
        g = lc.make_start(trace['start'], model)
    except Exception as e:
        res.event('start-failed', digest.canon_exc(e))
        return res
    f0 = lc.state_facts(g)
    if not (f0['well_formed'] and f0['connected'] and f0['top_is_variable']) or not g.triples:
        res.event('start-outside-domain')
        return res
    res.hit('probe.start_' + trace['start']['kind'])
    stale = 0

    def R(top=None):
        return rcontent.content_of_triples(list(g.triples), top if top is not None else g.top, mref)

    def describe():
        return {'triples': [list(map(str, t)) for t in g.triples], 'top': g.top, 'markers': lc.canon_markers(g)}

    for i, op in enumerate(trace['ops']):
        name = op['op']
        vs = lc._vars(g)
        base = {'op_index': i, 'op': {k: v for k, v in op.items() if k not in ('a', 'b', 'c')},
                'model': spec['kind'], 'graph': describe(), 'stale_faults_before': stale}
        if name in STALE:
            if lc.apply_op(g, op):
                stale += 1
                res.hit('fault.' + name)
            continue
        if name == 'restart':
            try:
                g = penman.decode(penman.encode(g, model=model), model=model)
                stale = 0
                res.hit('probe.restart')
            except Exception as e:
                res.violate('content', 'restart-failed:' + type(e).__name__, error=digest.canon_exc(e), **base)
                break
            continue
        if stale:
            res.hit('probe.stale_markers_before_relayout')
        if name == 'encode_top':
            v = vs[op['a'] % len(vs)]
            res.hit('probe.encode_other_top')
            own_before = R()
            try:
                back = penman.decode(penman.encode(g, top=v, model=model), model=model)
            except Exception as e:
                res.violate('content', 'encode-top-failed:' + type(e).__name__, error=digest.canon_exc(e),
                            new_top=v, **base)
                break
            want, got = R(v), rcontent.content_of_graph(back, mref)
            if R() != own_before:
                res.violate('content', 'encode-top-changed-its-argument', new_top=v,
                            diff=rcontent.content_diff(own_before, R()), **base)
                break
            res.event(i, name, v, digest.sha(rcontent.content_json(got)))
            if want != got:
                res.violate('content', 'new-top-changed-content', new_top=v, diff=rcontent.content_diff(want, got),
                            **base)
                break
            continue
        if name == 'reconfigure':
            key = op.get('key')
            top = vs[op['a'] % len(vs)] if op.get('new_top') else None
            if top is not None:
                res.hit('probe.reconfigure_new_top')
            kf = None if key is None else getattr(model, key + '_order')
            if key == 'random':
                res.hit('probe.reconfigure_random')
            want = R(top)
            own_before = R()
            with simrandom.installed(op.get('stream')) as stream:
                try:
                    t = layout.reconfigure(g, top=top, model=model, key=kf)
                    back = penman.decode(penman.format(t), model=model)
                except Exception as e:
                    res.violate('content', 'reconfigure-failed:' + type(e).__name__, error=digest.canon_exc(e),
                                key=key, new_top=top, **base)
                    break
            if R() != own_before:
                # "re-layout operations never change the graph": the graph handed in keeps its top and content
                res.violate('content', 'reconfigure-changed-its-argument', key=key, new_top=top,
                            diff=rcontent.content_diff(own_before, R()), after=describe(), **base)
                break
            got = rcontent.content_of_graph(back, mref)
            res.event(i, name, key, top, digest.sha(rcontent.content_json(got)))
            if want != got:
                res.violate('content', 'reconfigure-changed-content', key=key, new_top=top,
                            diff=rcontent.content_diff(want, got), tree=digest.canon_tree(t), **base)
                break
            if op.get('adopt') and top is None:
                g = back
                stale = 0
                res.hit('probe.adopted_layout')
            res.cover.add(digest.dumps([spec['kind'], trace['start']['kind'], name, key,
                                        (op.get('stream') or {}).get('mode') if key == 'random' else None,
                                        top is not None, min(stale, 3)]))
            continue
        if name == 'rearrange':
            keys = list(op.get('keys') or [])
            af = bool(op.get('attributes_first'))
            try:
                t = layout.configure(g, model=model)
            except Exception as e:
                res.violate('content', 'configure-failed:' + type(e).__name__, error=digest.canon_exc(e), **base)
                break
            before = copy.deepcopy(t.node)
            want = R()
            funcs = [getattr(model, {'inverted-last': 'is_role_inverted'}.get(k, k + '_order')) for k in keys]

            def kf(role, funcs=funcs):
                return [f(role) for f in funcs]
            with simrandom.installed(op.get('stream')) as stream:
                try:
                    layout.rearrange(t, key=kf if keys else None, attributes_first=af)
                    back = penman.decode(penman.format(t), model=model)
                except Exception as e:
                    res.violate('rearrange', 'rearrange-failed:' + type(e).__name__, error=digest.canon_exc(e),
                                **base)
                    break
            if af:
                res.hit('probe.rearrange_attributes_first')
            got = rcontent.content_of_graph(back, mref)
            if R() != want:
                res.violate('content', 'rearrange-changed-the-graph', keys=keys, attributes_first=af,
                            diff=rcontent.content_diff(want, R()), **base)
                break
            res.event(i, name, keys, af, digest.sha(digest.canon_node(t.node)))
            if want != got:
                res.violate('content', 'rearrange-changed-content', keys=keys, attributes_first=af,
                            diff=rcontent.content_diff(want, got), before=digest.canon_node(before),
                            after=digest.canon_node(t.node), **base)
                break
            bad = judge_rearrange(before, t.node, keys, af, mref, (op.get('stream') or {}).get('mode'), res,
                                  stream_consumed=stream.calls > 0)
            if bad:
                res.violate('rearrange', bad[0], detail=bad[1], keys=keys, attributes_first=af,
                            before=digest.canon_node(before), after=digest.canon_node(t.node), **base)
                break
            if op.get('adopt'):
                g = back
                stale = 0
                res.hit('probe.adopted_layout')
            res.cover.add(digest.dumps([spec['kind'], trace['start']['kind'], name, sorted(keys), af,
                                        (op.get('stream') or {}).get('mode') if 'random' in keys else None,
                                        min(stale, 3)]))
            continue
    res.hit('step.operations', len(trace['ops']))
    return res


def judge_rearrange(before, after, keys, af, mref, stream_mode, res, stream_consumed=True):
    """Per node: same branch multiset, concept stays first, rest ordered by the documented key, ties stable."""
    nb, na = node_branches(before), node_branches(after)
    bmap = {}
    for var, branches in nb:
        bmap.setdefault(var, []).append(branches)
    allvars = {var for var, _ in nb}
    seen = {}
    for var, branches in na:
        k = seen.get(var, 0)
        seen[var] = k + 1
        if var not in bmap or k >= len(bmap[var]):
            return ('node-set-changed', {'node': var})
        old = bmap[var][k]
        if sorted(map(branch_id, old)) != sorted(map(branch_id, branches)):
            return ('branch-multiset-changed', {'node': var})
        if old and old[0][0] == '/':
            if not branches or branch_id(branches[0]) != branch_id(old[0]):
                return ('concept-not-first', {'node': var})
            old_rest, new_rest = old[1:], branches[1:]
        else:
            old_rest, new_rest = old, branches
        has_random = 'random' in keys
        if has_random and stream_mode != 'constant':
            continue
        if has_random and not stream_consumed:
            # the random keys were not drawn from the simulator's stream (the code reaches the PRNG some other
            # way): their values are unknown, so there is no reference order for this call
            res.hit('probe.prng_seam_bypassed')
            continue
        if has_random:
            res.hit('probe.constant_stream_ties')
        names = [k_ for k_ in keys if k_ != 'random']
        key = rrearrange.make_key(names, mref)

        def full(b):
            role, tgt = b
            is_edge = (tgt[0] if not (tgt is None or isinstance(tgt, (str, int, float))) else tgt) in allvars
            return (is_edge if af else False, key(role))
        if any(rrearrange.alphanumeric(b[0])[1] for b in old_rest):
            res.hit('probe.rearrange_numeric_suffix')
        if any(mref.is_inverted(b[0]) for b in old_rest) and ('canonical' in keys or 'inverted-last' in keys):
            res.hit('probe.rearrange_inverted_last')
        expected = sorted(old_rest, key=full)      # Python's sort is stable: ties keep their previous order
        if list(map(branch_id, expected)) != list(map(branch_id, new_rest)):
            # distinguish a wrong order from a tie-order difference between identical branches
            return ('branches-not-in-key-order-or-unstable',
                    {'node': var, 'expected': [list(branch_id(b)) for b in expected],
                     'got': [list(branch_id(b)) for b in new_rest]})
    return None


def shrink(trace):
    yield from list_candidates(trace, ['ops'])
    st = trace['start']
    if st['kind'] == 'handbuilt':
        triples = st['content']['triples']
        for v in sorted({t[0] for t in triples}, key=str):
            keep = [t for t in triples if t[0] != v and t[2] != v]
            if keep and len(keep) < len(triples) and st.get('top') != v:
                yield with_path(trace, ['start', 'content', 'triples'], keep)
        yield from list_candidates(trace, ['start', 'content', 'triples'])
        if st.get('pyconst'):
            yield with_path(trace, ['start', 'pyconst'], 0)
    else:
        from .c09 import _tree_simplifications, _drop_branch
        for path, i in _tree_simplifications(st['tree']):
            yield with_path(trace, ['start', 'tree'], _drop_branch(st['tree'], path, i))
    for i, op in enumerate(trace['ops']):
        for key in ('a', 'b', 'c'):
            if op.get(key, 0) > 3:
                for small in (0, 1, 2):
                    yield with_path(trace, ['ops', i, key], small)
        if op.get('keys') and len(op['keys']) > 1:
            for kname in op['keys']:
                yield with_path(trace, ['ops', i, 'keys'], [kname])
        for flag in ('adopt', 'new_top', 'attributes_first'):
            if op.get(flag):
                yield with_path(trace, ['ops', i, flag], False)
        if (op.get('stream') or {}).get('mode') not in (None, 'constant'):
            yield with_path(trace, ['ops', i, 'stream'], {'mode': 'constant', 'seed': 0})


KNOWN = {}
