"""C17 - calls are pure and deterministic.

System simulated: 2-4 caller threads (clients) issuing library calls on a
*shared* world of by-contract read-only objects (graphs, trees, texts, models,
codecs) under the seeded baton scheduler (pre-emption at penman line events),
with asynchronous cancellation at arbitrary lines, recursion-limit squeeze,
pickle / fork / spawn transport of arguments, logging configuration as a knob,
hash-seed replicas in fresh interpreters and real `python -m penman`
subprocesses under two hash seeds.
"""

import copy
import logging
import os
import pickle
import shutil
import sys
import tempfile

from ..core import digest
from ..core.minimise import list_candidates, with_path, ddmin_list
from ..core.result import RunResult
from ..core.rng import Rng
from ..gen import content as gcontent
from ..gen import models as gmodels
from ..gen import text as gtext
from ..ref import cli_pipeline
from ..seams import cli, sched, simrandom

ID = 'C17'
HASHSEED_IS_VIOLATION = True

TIERS = {
    'quick': {'runs': 2400, 'replica_runs': 480, 'hash_seeds': [1, 4242, 99], 'timeout_s': 1500, 'shrink_s': 60,
              'step_budget': 250_000_000, 'stall_s': 150},
    'thorough': {'runs': 60000, 'replica_runs': 8000, 'hash_seeds': [1, 2, 3, 7, 99, 4242, 31337, 2**31],
                 'step_budget': 800_000_000, 'stall_s': 400,
                 'timeout_s': 12000, 'shrink_s': 180},
}

RULE = ('Each run builds a world of 3-6 shared objects per kind from seeded recipes (graphs decoded with markers, '
        'hand-built, outputs of transformations, with alignments and metadata; their trees and texts; models default/AMR/'
        'no-op/custom; codecs) and 1-4 client scripts of <= 8 operations from the catalogue of documented value-returning '
        'calls (decode/iterdecode/loads, parse/iterparse/parse_triples, encode/dumps/format/format_triples, interpret, '
        'configure, reconfigure under every key, the four transformations, canonicalize_roles, Graph queries and | / -, '
        'Model.errors and the role algebra, layout diagnostics, surface alignments, Tree.nodes/walk) plus compound '
        'operations that derive a result and then mutate it in place (|=, -=, top=, rearrange, reset_variables, '
        'triples.sort) and lazy decoders advanced step by step. Sampled: thread schedules (pre-emption probability 0.001-0.3, '
        'subset of source files, first client), cancellation at a seeded line of a seeded call (thorough: every line of '
        'small calls), recursion-limit squeeze, pickle transport of arguments, fork/spawn workers, logging level, hash seeds. '
        'The same scripts are first executed sequentially on a second world: per-operation results must be equal, and '
        'structural digests of every shared object must equal their pristine values at every context switch and after '
        'every operation. distinct_nontrivial counts distinct (pre-empted file:line, operation of the pre-empted client, '
        'operation of the resumed client) triples plus distinct (operation, cancel line) pairs.')

REAL_VS_STUB = {
    'real': ['all of penman', 'real threads (CPython threading) parked on a Condition', 'pickle', 'multiprocessing fork and '
             'spawn workers (sample)', 'python -m penman child processes under two hash seeds (sample)', 'logging'],
    'simulated': ['which thread runs next and where a call is pre-empted (sys.settrace line events, seeded)',
                  'cancellation instants', 'recursion limit', 'the global PRNG behind Model.random_order',
                  'PYTHONHASHSEED of worker interpreters'],
}
ASSUMPTIONS = [
    'Shared objects are read-only by contract; in-place operations are applied only to results a client derived itself.',
    'Pre-emption granularity is the source line of penman frames; stdlib frames (re, copy, logging, json) are atomic.',
    'The sequential reference is the same code: a consistent change of results never alarms here.',
    'No clock in penman: logical time (line steps, context switches) is reported instead of simulated time.',
    'Random ordering keys are exercised only with the simulator-owned constant stream inside threaded runs.',
]
PROBES = ['context_switch', 'cancel_fired', 'cancel_reissued', 'recursion_squeeze_fired', 'pickle_transport',
          'fork_worker', 'spawn_worker', 'debug_logging', 'lazy_iterator_interleaved', 'inplace_on_derived',
          'subprocess_hashseed_pair', 'multi_client', 'single_client', 'transform_output_in_world',
          'handbuilt_in_world', 'random_key_constant_stream', 'reference_and_run_under_different_log_levels',
          'duplicate_triples_in_world', 'enumerated_switch_point']

ALL_FILES = ['layout.py', 'graph.py', 'transform.py', 'codec.py', 'model.py', '_parse.py', '_lexer.py', '_format.py',
             'tree.py', 'surface.py', 'constant.py', 'epigraph.py', 'exceptions.py', '__init__.py']
FILE_SUBSETS = [None, None, ['layout.py', 'graph.py'], ['transform.py', 'layout.py', 'model.py'],
                ['graph.py'], ['_parse.py', '_lexer.py', 'codec.py', 'layout.py'], ['layout.py'],
                # pre-emption also inside copy.deepcopy (reconfigure, | and - copy their argument there)
                ['stdlib:copy'], ['stdlib:copy', 'graph.py', 'layout.py']]

# ---- operation catalogue ---------------------------------------------------------------------------
# name -> (argument kinds)
CATALOGUE = [
    ('decode', 4), ('loads', 2), ('iterdecode_list', 2), ('parse', 2), ('iterparse_list', 1), ('parse_triples', 1),
    ('encode', 8), ('encode_top', 4), ('dumps', 2), ('format', 3), ('format_triples', 2), ('interpret', 4),
    ('configure', 5), ('configure_top', 2), ('reconfigure', 6), ('reify_edges', 4), ('dereify_edges', 4),
    ('reify_attributes', 4), ('indicate_branches', 3), ('canonicalize_roles', 2), ('queries', 4), ('or', 4), ('sub', 4),
    ('errors', 3), ('errors_union', 3), ('errors_islands', 2), ('role_algebra', 2), ('node_contexts', 3), ('appears_inverted', 3), ('alignments', 2),
    ('tree_nodes_walk', 2), ('graph_eq', 1), ('codec_api', 3), ('model_reify', 3), ('model_from_dict', 1),
    ('raising_key', 3), ('model_copies', 2), ('sniff_then_decode', 2), ('canonicalize_then_rearrange', 3),
    ('decode_edit_marker_decode', 2), ('edit_own_model', 2),
    # derive, then mutate the derived object in place
    ('or_then_ior', 3), ('sub_then_isub', 3), ('copy_then_top', 2), ('configure_then_rearrange', 3),
    ('configure_then_reset_variables', 3), ('or_then_sort', 2), ('indicate_then_ior', 2),
    ('parse_then_edit_metadata', 3), ('fresh_model_decode', 3),
    # lazy decoders
    ('iter_open', 2), ('iter_next', 4),
]
RECONF_KEYS = [None, 'original', 'alphanumeric', 'canonical', 'random']


def plan_world(rng, idx):
    specs = [gmodels.DEFAULT, gmodels.AMR, gmodels.NOOP, gmodels.custom_any(idx)]
    items = []
    n = 3 + rng.randrange(4)
    for i in range(n):
        r = rng.sub('w', i)
        mi = r.weighted([(0, 3), (1, 4), (2, 1), (3, 2)])
        spec = specs[mi]
        ccfg = gcontent.ContentCfg(max_nodes=r.weighted([(1, 3), (2, 3), (3, 3), (4, 3), (5, 3), (10, 1)]),
                                   reifiable=r.pick([0.0, 0.3, 0.6]),
                                   reified_nodes=r.pick([0.0, 0.4]), p_none_target=0.02, avoid_ambiguous=True,
                                   p_inverted_attr=r.pick([0.0, 0.1, 0.3]),
                                   var_like_constants=r.pick([0.0, 0.2, 0.4]))
        c = gcontent.gen_content(r, spec, ccfg)
        kind = r.weighted([('decoded', 5), ('handbuilt', 2), ('transformed', 2), ('stale', 2), ('dup', 1), ('merged', 1)])
        item = {'kind': kind, 'model': mi, 'meta': gtext.gen_metadata(r.sub('meta'), p_any=0.5)}
        if kind == 'handbuilt':
            triples = [list(t) for t in c['triples']]
            r.shuffle(triples)
            item['content'] = {'top': c['top'], 'triples': triples}
        else:
            item['tree'] = gcontent.layout_tree(r.sub('layout'), c, spec, gcontent.LayoutCfg(p_align=r.pick([0, 0.3, 0.6])))
            if kind == 'merged' and spec.get('kind') in ('amr', 'custom'):
                # a relation that is present both plainly and as a collapsible reified node: dereifying maps the node
                # onto a triple the graph already has (the coincidence behind known finding F17b)
                from ..ref.roles import model_ref as _mref
                reifs = [rf for rf in _mref(spec).reifications if not rf[0].endswith('-of')]
                if reifs:
                    role_, concept_, srole_, trole_ = reifs[r.sub('merged').randrange(len(reifs))]
                    top_ = item['tree']
                    used = {n_ for n_ in str(top_).replace('[', ' ').replace(']', ' ').replace(',', ' ').replace("'", ' ').split()}
                    fresh_ = next(v_ for v_ in ('h9', 'h8', 'q9', 'm9') if v_ not in used)
                    const_ = r.sub('merged2').pick(['7', 'imperative', '"x y"'])
                    top_[1].append([role_ + r.sub('merged3').pick(['', '~e.3']), const_])
                    top_[1].append([srole_ + '-of', [fresh_, [['/', concept_], [trole_, const_]]]])
            if kind == 'dup':
                # the same triple stated twice with different epigraph data (not well-formed, but purity and
                # determinism are demanded of every call whatever it is given)
                _dup_branch(item['tree'], r.sub('dup'))
            if kind == 'transformed':
                item['transform'] = r.pick(['reify_edges', 'reify_attributes', 'indicate_branches', 'dereify_edges'])
            if kind == 'stale':
                # what an edited graph looks like: reordered triples, lost / duplicated / misplaced markers
                from . import lifecycle as lc
                item['faults'] = lc.plan_ops(r.sub('faults'), 1 + r.randrange(3),
                                             [(lc.MARKER_FAULTS, 3), (lc.REORDERINGS, 2)])
        items.append(item)
    return {'models': specs, 'items': items}


def _dup_branch(tree, rng):
    nodes = []

    def walk(n):
        nodes.append(n)
        for b in n[1]:
            if isinstance(b[1], list):
                walk(b[1])
    walk(tree)
    cands = [(n, i) for n in nodes for i, b in enumerate(n[1]) if b[0] != '/']
    if not cands:
        return
    n, i = cands[rng.randrange(len(cands))]
    role, tgt = n[1][i]
    base_role = role.partition('~')[0]
    if isinstance(tgt, list):
        # :R v ... :R (v / concept): the bare reference carries no Push, the nested node does
        n[1].insert(i if rng.chance(0.5) else i + 1, [base_role, tgt[0]])
    elif isinstance(tgt, str) and not tgt.startswith('"'):
        n[1].insert(i + 1, [base_role, tgt.partition('~')[0] + '~e.%d' % (1 + rng.randrange(9))])
    else:
        n[1].insert(i + 1, [base_role + '~e.%d' % (1 + rng.randrange(9)), tgt])


def plan(rng, idx, tier):
    world = plan_world(rng.sub('world'), idx)
    nitems = len(world['items'])
    nclients = rng.weighted([(1, 2), (2, 4), (3, 3), (4, 2)])
    clients = []
    oid = 0
    for ci in range(nclients):
        r = rng.sub('client', ci)
        ops = []
        for k in range(1 + r.randrange(8)):
            name = r.weighted(CATALOGUE)
            oid += 1
            op = {'id': oid, 'op': name, 'x': r.randrange(nitems), 'y': r.randrange(nitems), 'z': r.randrange(nitems),
                  'a': r.randrange(1000), 'indent': r.pick([-1, -1, None, 0, 2]), 'compact': r.chance(0.2)}
            if name == 'reconfigure':
                op['key'] = r.pick(RECONF_KEYS)
            if r.chance(0.12):
                op['pickle'] = True
            ops.append(op)
        clients.append(ops)
    srng = rng.sub('sched')
    t = {
        'property': ID, 'world': world, 'clients': clients,
        'config': {'p_switch': srng.pick([0.001, 0.01, 0.05, 0.3]), 'files': srng.pick(FILE_SUBSETS),
                   'first': srng.randrange(nclients), 'sched_seed': srng.randrange(1 << 30),
                   'debug_logging': srng.chance(0.25), 'step_cap': 2_000_000,
                   # logging configuration is process state, not an argument: the sequential reference and the
                   # simulated phase run under independently chosen levels of the 'penman' logger
                   'log_levels': [rng.sub('loglevel', 0).pick(['WARNING', 'WARNING', 'ERROR', 'DEBUG']),
                                  rng.sub('loglevel', 1).pick(['WARNING', 'ERROR', 'ERROR', 'DEBUG'])]},
        'faults': [],
    }
    frng = rng.sub('fault')
    allops = [(ci, op) for ci, ops in enumerate(clients) for op in ops]
    if frng.chance(0.35) and allops:
        for _ in range(1 + frng.randrange(2)):
            ci, op = frng.pick(allops)
            t['faults'].append({'kind': 'cancel', 'client': ci, 'op_id': op['id'],
                                'at_line': 1 + int(frng.random() ** 2 * 400)})
    if nclients == 1 and frng.chance(0.4) and allops:
        ci, op = frng.pick(allops)
        t['faults'].append({'kind': 'recursion', 'client': 0, 'op_id': op['id'], 'headroom': 2 + frng.randrange(18)})
    t['transport'] = {'fork': idx % 16 == 5, 'spawn': (idx % 400 == 9) or (tier == 'thorough' and idx % 60 == 9)}
    t['subprocess'] = (idx % 60 == 3)
    if allops and ((tier == 'thorough' and idx % 10 == 0) or idx % 40 == 0):
        # every line of one call as a crash point; prefer a call that is the first to use the per-world
        # custom model (lazily initialised state is built then), else the first call of client 0
        items = world['items']
        pref = [op for _, op in allops if items[op['x'] % len(items)]['model'] == 3
                and op['op'] in ('reify_edges', 'dereify_edges', 'role_algebra', 'errors', 'encode', 'decode')]
        target = pref[0] if pref else clients[0][0]
        t['enumerate_cancel'] = {'op_id': target['id'], 'max_lines': 400 if tier == 'thorough' else 200}
    if nclients >= 2 and (idx % 25 == 5 if tier == 'thorough' else idx % 40 == 20):
        # bounded exhaustive exploration of one pair of calls: the first call of client 0 is pre-empted at *every* one
        # of its line events in turn, and the first call of client 1 runs to completion in between
        a_, b_ = clients[0][0], clients[1][0]
        if a_['op'] not in ('iter_open', 'iter_next') and b_['op'] not in ('iter_open', 'iter_next'):
            t['enumerate_switch'] = {'a': a_['id'], 'b': b_['id'], 'max_lines': 600 if tier == 'thorough' else 250}
    return t


# --------------------------------------------------------------------------
# world construction (identical for the reference world and the shared world)

class World:
    def __init__(self, spec):
        import penman
        from penman import transform
        from penman.codec import PENMANCodec
        from penman.graph import Graph
        self.models = [gmodels.make_model(m) for m in spec['models']]
        # private model objects for the shared world so that the module-level AMR / no-op
        # instances are shared objects too (they are, in real use)
        self.codecs = [PENMANCodec(model=m) for m in self.models]
        self.texts, self.graphs, self.trees, self.mi = [], [], [], []
        for it in spec['items']:
            mi = it['model']
            model = self.models[mi]
            if it['kind'] == 'handbuilt':
                g = Graph([tuple(t) for t in it['content']['triples']], top=it['content']['top'],
                          metadata=dict(it.get('meta') or []))
                text = penman.encode(g, model=model)
            else:
                text = gtext.fmt_graph(it['tree'], it.get('meta') or [], {'nl': False})
                g = penman.decode(text, model=model)
                if it['kind'] == 'stale':
                    from . import lifecycle as lc
                    for fop in it.get('faults', []):
                        lc.apply_op(g, fop)
                # the per-world custom model (index 3) is left untouched while the world is built, so that
                # its first use - and whatever it initialises lazily - happens inside the simulated phase
                if it['kind'] == 'transformed' and mi != 3:
                    f = getattr(transform, it['transform'])
                    try:
                        g = f(g) if it['transform'] == 'reify_attributes' else f(g, model)
                    except Exception:
                        pass
            self.texts.append(text)
            self.graphs.append(g)
            self.trees.append(penman.parse(text))
            self.mi.append(mi)
        self.triple_texts = [penman.format_triples(g.triples) for g in self.graphs]

    def shared(self, models=True):
        """(name, object) pairs whose structure must never change."""
        out = []
        for i, g in enumerate(self.graphs):
            out.append((f'graph{i}', g))
        for i, t in enumerate(self.trees):
            out.append((f'tree{i}', t))
        if models:
            for i, m in enumerate(self.models):
                out.append((f'model{i}', m))
            for i, c in enumerate(self.codecs):
                out.append((f'codec{i}.model', c.model))
        return out

    def digests(self, models=False):
        """Fingerprints of the shared graphs and trees; models only on request: reading a model's tables is
        itself a use of the model (it may initialise lazily), so the harness looks at models only after
        the simulated phase, never before or during it."""
        return [digest.fingerprint(o) for _, o in self.shared(models)]


def _pk(x):
    return pickle.loads(pickle.dumps(x))


_PRNG_SEAM_OK = [True]


def _probe_prng(stream):
    """Is the simulator's stream really what Model.random_order draws from?  If the code under test reaches the PRNG
    some other way, a random key is outside what a run controls ("random ordering keys excepted"): such calls are
    then issued with the 'original' key instead, in the reference, the simulated phase and the workers alike."""
    from penman.model import Model
    n0 = stream.calls
    try:
        Model().random_order(':probe')
    except Exception:
        pass
    _PRNG_SEAM_OK[0] = stream.calls > n0
    return _PRNG_SEAM_OK[0]


def run_op(w, op, local):
    """Execute one catalogue operation against world *w*.  Returns the raw result."""
    import penman
    from penman import layout, surface, transform
    n = len(w.graphs)
    x, y, z = op['x'] % n, op['y'] % n, op['z'] % n
    model = w.models[w.mi[x]]
    codec = w.codecs[w.mi[x]]
    g, t, text = w.graphs[x], w.trees[x], w.texts[x]
    if op.get('pickle'):
        g, t, model = _pk(g), _pk(t), _pk(model)
    name = op['op']
    indent, compact = op.get('indent', -1), op.get('compact', False)
    if name == 'decode':
        return penman.decode(text, model=model)
    if name == 'loads':
        return penman.loads(text + '\n\n' + w.texts[y], model=model)
    if name == 'iterdecode_list':
        return list(codec.iterdecode([text, w.texts[y]]))
    if name == 'parse':
        return penman.parse(text)
    if name == 'iterparse_list':
        return list(penman.iterparse(text + '\n' + w.texts[y]))
    if name == 'parse_triples':
        return penman.parse_triples('instance(a, b) ^ ARG0(a, c) ^ instance(c, d)')
    if name == 'encode':
        return penman.encode(g, model=model, indent=indent, compact=compact)
    if name == 'encode_top':
        vs = sorted(g.variables(), key=str)
        return penman.encode(g, top=vs[op['a'] % len(vs)], model=model, indent=indent)
    if name == 'dumps':
        return penman.dumps([g, w.graphs[y]] if w.mi[y] == w.mi[x] else [g], model=model, indent=indent)
    if name == 'format':
        return penman.format(t, indent=indent, compact=compact)
    if name == 'format_triples':
        return penman.format_triples(g.triples, indent=bool(op['a'] % 2))
    if name == 'interpret':
        return layout.interpret(t, model)
    if name == 'configure':
        return layout.configure(g, model=model)
    if name == 'configure_top':
        vs = sorted(g.variables(), key=str)
        return layout.configure(g, top=vs[op['a'] % len(vs)], model=model)
    if name == 'reconfigure':
        key = op.get('key')
        if key == 'random' and not _PRNG_SEAM_OK[0]:
            key = 'original'
        kf = None if key is None else getattr(model, key + '_order')
        # the simulator-owned constant PRNG stream is installed once per run (see execute):
        # installing it per call would be a process-global toggled by interleaved clients
        return layout.reconfigure(g, model=model, key=kf)
    if name == 'reify_edges':
        return transform.reify_edges(g, model)
    if name == 'dereify_edges':
        return transform.dereify_edges(g, model)
    if name == 'reify_attributes':
        return transform.reify_attributes(g)
    if name == 'indicate_branches':
        return transform.indicate_branches(g, model)
    if name == 'canonicalize_roles':
        return transform.canonicalize_roles(t, model)
    if name == 'queries':
        return [g.top, g.variables(), g.instances(), g.edges(), g.attributes(), g.reentrancies(),
                g.edges(source=g.top), g.attributes(role=':polarity')]
    if name == 'or':
        return g | w.graphs[y]
    if name == 'sub':
        return g - w.graphs[y]
    if name == 'errors':
        return model.errors(g)
    if name == 'errors_union':
        # graphs of different world items rarely share variables: their union is disconnected
        return model.errors(g | w.graphs[y])
    if name == 'errors_islands':
        # several unreachable nodes whose names differ only in leading zeros / digits
        from penman.graph import Graph
        extra = [(v, ':instance', 'island') for v in ('q0', 'q00', 'q000', 'q1', 'q01', 'k', 'k0')]
        return model.errors(Graph(list(g.triples) + extra, top=g.top))
    if name == 'role_algebra':
        roles = sorted({tr[1] for tr in g.triples})
        return [[r, model.has_role(r), model.is_role_inverted(r), model.invert_role(r), model.canonicalize_role(r),
                 model.is_role_reifiable(r), model.alphanumeric_order(r), model.canonical_order(r)] for r in roles] + \
               [[list(tr), list(model.invert(tr)), list(model.deinvert(tr)), list(model.canonicalize(tr))]
                for tr in g.triples[:4]]
    if name == 'node_contexts':
        return layout.node_contexts(g)
    if name == 'appears_inverted':
        return [[layout.appears_inverted(g, tr), layout.get_pushed_variable(g, tr)] for tr in g.triples]
    if name == 'alignments':
        return [surface.alignments(g), surface.role_alignments(g)]
    if name == 'tree_nodes_walk':
        return [[nd[0] for nd in t.nodes()], [[list(p), b[0]] for p, b in t.walk()], repr(t), str(t)]
    if name == 'graph_eq':
        return [g == w.graphs[y], g == g, str(g)[:0]]
    if name == 'raising_key':
        # a user-supplied sort key that fails in the middle of the call: the exception is the result, and the
        # same operations with a proper key right afterwards must be unaffected by the aborted call
        calls = [0]
        lim = 1 + op['a'] % 6

        def key(role):
            calls[0] += 1
            if calls[0] >= lim:
                raise LookupError('user key failed at call %d' % calls[0])
            return model.canonical_order(role)
        out = []
        try:
            out.append(layout.reconfigure(g, model=model, key=key))
        except LookupError as e:
            out.append(digest.canon_exc(e))
        calls[0] = 0
        tt = layout.configure(g, model=model)
        try:
            layout.rearrange(tt, key=key, attributes_first=bool(op['a'] % 2))
            out.append('no-exception')
        except LookupError as e:
            out.append(digest.canon_exc(e))
        out.append(layout.reconfigure(g, model=model, key=model.canonical_order))
        t2 = layout.configure(g, model=model)
        layout.rearrange(t2, key=model.alphanumeric_order)
        out.append(t2)
        return out
    if name == 'canonicalize_then_rearrange':
        # the tree returned by canonicalize_roles is the caller's own: re-ordering and relabelling it in place
        # must not reach the argument
        tt = transform.canonicalize_roles(t, model)
        layout.rearrange(tt, key=[model.canonical_order, model.alphanumeric_order, lambda role: -len(role)][op['a'] % 3],
                         attributes_first=bool(op['a'] % 2))
        tt.reset_variables('r{i}')
        # (not tt.metadata: canonicalize_roles, like configure, hands the argument's metadata dict on - section 12)
        return tt
    if name == 'decode_edit_marker_decode':
        # markers of a decoded graph are the caller's own objects: editing one in place must not show up in any
        # other decode of the same text (invariant inside the operation: reference and run would agree with each
        # other about a marker object that is shared process-wide)
        before = digest.canon(penman.decode(text, model=model))
        mine = penman.decode(text, model=model)
        edited = 0
        for tr in list(mine.epidata):
            for epi in mine.epidata[tr]:
                if hasattr(epi, 'indices'):
                    epi.indices = tuple(i + 10 for i in epi.indices)
                    epi.prefix = 'edited.'
                    edited += 1
                elif hasattr(epi, 'variable') and epi.variable is not None:
                    epi.variable = 'edited-' + str(epi.variable)
                    edited += 1
        after = digest.canon(penman.decode(text, model=model))
        if after != before:
            return ['INVARIANT-BROKEN', 'decode-result-shares-marker-objects-with-an-earlier-result',
                    {'edited_markers': edited, 'before': _short(before), 'after': _short(after)}]
        return [edited, after]
    if name == 'edit_own_model':
        # a model the caller built itself and then edits through its public tables: every later answer must be the
        # answer of a fresh model with the edited tables (nothing remembered about the object)
        from penman.model import Model

        def build(norm):
            sp = {k_: v_ for k_, v_ in gmodels.CUSTOM_SPECS[0].items()}
            sp['reifications'] = [tuple(r_) for r_ in sp['reifications']]
            sp['normalizations'] = dict(norm)
            return Model(**sp)

        def answers(m):
            roles = [':mod-of', ':domain-of', ':mod', ':ARG0-of-of', ':loc-of', ':quant']
            tt_ = penman.parse('(a / alpha :mod-of (b / beta :domain-of c) :loc-of-of d)')
            return [[m.canonicalize_role(r_) for r_ in roles], [m.is_role_inverted(r_) for r_ in roles],
                    digest.canon(transform.canonicalize_roles(tt_, m)),
                    [list(m.canonicalize(('x', r_, 'y'))) for r_ in roles]]
        base = dict(gmodels.CUSTOM_SPECS[0]['normalizations'])
        m = build(base)
        first = answers(m)
        edited = dict(base)
        edited[':mod-of'] = [':loc', ':quant', ':mod'][op['a'] % 3]
        edited[':loc-of'] = ':domain'
        m.normalizations.clear()
        m.normalizations.update(edited)
        second = answers(m)
        fresh = answers(build(edited))
        if second != fresh:
            return ['INVARIANT-BROKEN', 'edited-model-answers-differ-from-a-fresh-model-with-the-same-tables',
                    {'answers_of_edited_model': _short(second), 'answers_of_fresh_model': _short(fresh)}]
        return [first, second]
    if name == 'sniff_then_decode':
        # format sniffing: try the triple-conjunction parser first, fall back to PENMAN
        try:
            first = penman.parse_triples(text)
        except Exception as e:
            first = digest.canon_exc(e)[:2]
        return [first, penman.decode(text, model=model), penman.parse_triples(w.triple_texts[x])
                if '"' not in w.triple_texts[x] else None]
    if name == 'model_copies':
        # a model that went through copy.copy / copy.deepcopy / pickle (what a worker process receives) must
        # behave exactly like the original: same tables in the same order, same answers
        import copy as _copy
        from penman.exceptions import ModelError

        def behaviour(m):
            out = [[k, [list(e) for e in v]] for k, v in m.reifications.items()]
            out.append([[digest.canon_atom(k), [list(e) for e in v]] for k, v in m.dereifications.items()])
            out.append([m.top_role, m.concept_role, m.top_variable, list(m.roles), list(m.normalizations.items())])
            for role, specs in list(m.reifications.items()):
                for concept, srole, trole in specs:
                    for args in (((('n9', ':instance', concept), ('n9', srole, 'x'), ('n9', trole, 'y'))),
                                 ((('n9', ':instance', concept), ('n9', trole, 'y'), ('n9', srole, 'x')))):
                        try:
                            out.append(list(m.dereify(*args)))
                        except ModelError as e:
                            out.append(digest.canon_exc(e))
                try:
                    out.append([list(t3) for t3 in m.reify(('x', role, 'y'), {'x', 'y', '_'})])
                except ModelError as e:
                    out.append(digest.canon_exc(e))
            out.append([m.has_role(r) for r in (':ARG0', ':ARG0-of', ':mod-of-of', ':x-of', ':ROOT', ':TOP', ':isa', ':zzz')])
            return out
        results = []
        for mi_, m in enumerate(w.models):
            base = behaviour(m)
            for how, mk in (('copy', _copy.copy), ('deepcopy', _copy.deepcopy), ('pickle', _pk)):
                m2 = mk(m)
                if behaviour(m2) != base or not (m2 == m):
                    return ['INVARIANT-BROKEN', 'copied-model-behaves-differently',
                            {'model': mi_, 'how': how, 'original': _short(base), 'copy': _short(behaviour(m2)),
                             'equal': bool(m2 == m)}]
            results.append(digest.sha(base))
        return results
    if name == 'codec_api':
        # the same calls through a shared PENMANCodec object
        tt = codec.parse(text)
        gg = codec.decode(text)
        return [tt, gg, codec.format(t, indent=indent, compact=compact), codec.encode(g, indent=indent, compact=compact),
                codec.format_triples(g.triples, indent=bool(op['a'] % 2)), codec.parse_triples(w.triple_texts[x])
                if '"' not in w.triple_texts[x] else None, list(codec.iterparse(text + ' ' + w.texts[y]))]
    if name == 'model_reify':
        # the model's reification interface called directly (not through a transformation)
        from penman.exceptions import ModelError
        out = []
        vs = set(g.variables())
        for tr in g.triples[:6]:
            try:
                out.append([list(map(list, model.reify(tr, vs))), sorted(map(str, vs))])
            except ModelError as e:
                out.append(digest.canon_exc(e))
            try:
                out.append(list(map(list, model.reify(tr))))
            except ModelError as e:
                out.append(digest.canon_exc(e))
        inst = {tr[0]: tr for tr in g.instances()}
        for v, itr in sorted(inst.items(), key=lambda kv: str(kv[0]))[:4]:
            rel = [tr for tr in g.triples if tr[0] == v and tr[1] != ':instance']
            out.append([model.is_concept_dereifiable(itr[2]), model.original_order(itr[1])])
            if len(rel) >= 2:
                for a_, b_ in ((rel[0], rel[1]), (rel[1], rel[0])):
                    try:
                        out.append(list(model.dereify(itr, a_, b_)))
                    except ModelError as e:
                        out.append(digest.canon_exc(e))
        return out
    if name == 'model_from_dict':
        from penman.model import Model
        sp = dict(gmodels.CUSTOM_SPECS[op['a'] % len(gmodels.CUSTOM_SPECS)])
        if 'reifications' in sp:
            sp['reifications'] = [tuple(r) for r in sp['reifications']]
        m = Model.from_dict(sp)
        return [m, penman.encode(penman.decode(text, model=m), model=m), m == Model.from_dict(sp)]
    # ---- derive, then mutate the derived object in place ----------------------------------------
    if name == 'or_then_ior':
        h = g | w.graphs[y]
        h |= w.graphs[z]
        return h
    if name == 'sub_then_isub':
        h = g - w.graphs[y]
        h -= w.graphs[z]
        return h
    if name == 'copy_then_top':
        h = g | g
        vs = sorted(h.variables(), key=str)
        h.top = vs[op['a'] % len(vs)]
        h.metadata['k'] = 'v'
        return h
    if name == 'configure_then_rearrange':
        tt = layout.configure(g, model=model)
        layout.rearrange(tt, key=model.canonical_order, attributes_first=bool(op['a'] % 2))
        return tt
    if name == 'configure_then_reset_variables':
        tt = layout.configure(g, model=model)
        tt.reset_variables(['{prefix}{j}', 'a{i}', '{prefix}{i}'][op['a'] % 3])
        return tt
    if name == 'fresh_model_decode':
        # short-lived model objects (what penman.decode(s) without a model, or a caller building a
        # Model per request, produce): results must not depend on which objects lived before
        from penman.model import Model
        specs = [{}, gmodels.CUSTOM_SPECS[0], gmodels.CUSTOM_SPECS[1], {'roles': {':consist-of': {}, ':x-of': {}}}]
        out = []
        for k in range(3):
            sp = specs[(op['a'] + k) % len(specs)]
            m = Model(**{kk: ([tuple(r) for r in v] if kk == 'reifications' else v) for kk, v in sp.items()})
            out.append(penman.encode(penman.decode(w.texts[(x + k) % n], model=m), model=m))
            del m
        return out
    if name == 'parse_then_edit_metadata':
        # the tree returned by parse is the caller's own: annotating it must not leak anywhere
        tt = penman.parse(text if op['a'] % 2 else '(z9 / no-comment :ARG0 (y9 / here))')
        tt.metadata['annotator'] = 'client-%d' % (op['a'] % 7)
        tt.metadata.pop('id', None)
        return tt
    if name == 'or_then_sort':
        h = g | w.graphs[y]
        h.triples.sort(key=lambda tr: (str(tr[1]), str(tr[0]), str(tr[2])))
        for tr in sorted(h.epidata, key=repr)[::2]:
            del h.epidata[tr]
        return h
    if name == 'indicate_then_ior':
        h = transform.indicate_branches(g, model)
        h |= w.graphs[y]
        h.metadata['k'] = 'v'
        h.triples.reverse()
        h.epidata.clear()
        return h
    # ---- lazy decoders -------------------------------------------------------------------------------
    if name == 'iter_open':
        local['iters'].append(codec.iterdecode(iter([text + '\n', '\n', w.texts[y] + '\n', w.texts[z] + '\n'])))
        return len(local['iters'])
    if name == 'iter_next':
        if local.get('tainted'):
            return 'not-judged: an earlier operation on this client\'s private iterators was interrupted'
        if not local['iters']:
            return 'no-iterator'
        it = local['iters'][op['a'] % len(local['iters'])]
        try:
            return next(it)
        except StopIteration:
            return 'StopIteration'
    raise ValueError(name)


def result_canon(fn):
    try:
        return digest.canon(fn())
    except Exception as e:
        return digest.canon_exc(e)


class _ListHandler(logging.Handler):
    def __init__(self):
        super().__init__(level=logging.DEBUG)
        self.n = 0

    def createLock(self):
        # a real lock held by a parked client would block the baton holder for ever: the
        # simulator decides who runs, so its own recording handler must be lock-free
        self.lock = None

    def emit(self, record):
        self.n += 1
        record.getMessage()       # formats %s arguments: Tree.__str__ / Graph.__str__ run here


def _depth():
    f = sys._getframe()
    n = 0
    while f is not None:
        n += 1
        f = f.f_back
    return n


# --------------------------------------------------------------------------

def execute(trace):
    res = RunResult()
    cfg = trace.get('config', {})
    clients = trace['clients']
    lg = logging.getLogger('penman')
    levels = cfg.get('log_levels') or (['DEBUG', 'DEBUG'] if cfg.get('debug_logging') else ['WARNING', 'WARNING'])
    handler = _ListHandler()
    lg.addHandler(handler)
    if 'DEBUG' in levels:
        res.hit('probe.debug_logging')
    if levels[0] != levels[1]:
        res.hit('probe.reference_and_run_under_different_log_levels')
    try:
        with simrandom.installed({'mode': 'constant'}) as stream:
            # is the simulator's stream really what Model.random_order draws from?  If the code reaches the PRNG some
            # other way, calls with a random key are outside what this run controls ("random ordering keys excepted")
            if not _probe_prng(stream):
                res.hit('probe.prng_seam_bypassed')
            _execute(trace, cfg, clients, res, levels)
    finally:
        lg.removeHandler(handler)
        lg.setLevel(logging.NOTSET)
        res.hit('step.log_records', handler.n)
    return res


def _execute(trace, cfg, clients, res, levels=('WARNING', 'WARNING')):
    lg = logging.getLogger('penman')
    # ---- sequential reference on its own world -------------------------------------------------------
    lg.setLevel(getattr(logging, levels[0]))
    ref_world = World(trace['world'])
    reference = {}
    for ci, ops in enumerate(clients):
        local = {'iters': []}
        for op in ops:
            # the reference never sends its arguments through pickle: a copy of an argument that crossed a
            # process / pickle boundary must give the same result as the argument itself
            reference[op['id']] = result_canon(lambda: run_op(ref_world, dict(op, pickle=False), local))
    ref_after = ref_world.digests()
    for op_id, val in reference.items():
        if isinstance(val, list) and val[:1] == ['INVARIANT-BROKEN']:
            d_ = val[2]
            if isinstance(d_, list) and d_[:1] == ['MAP']:
                d_ = {str(k_): v_ for k_, v_ in d_[1]}       # canonical form of the detail mapping
            res.violate('process', val[1], op_id=op_id, **(d_ if isinstance(d_, dict) else {'detail': d_}))
            break

    lg.setLevel(getattr(logging, levels[1]))
    world = World(trace['world'])
    pristine = world.digests()
    names = [n for n, _ in world.shared(models=False)]
    if any(it['kind'] == 'transformed' for it in trace['world']['items']):
        res.hit('probe.transform_output_in_world')
    if any(it['kind'] == 'handbuilt' for it in trace['world']['items']):
        res.hit('probe.handbuilt_in_world')
    if any(it['kind'] == 'dup' for it in trace['world']['items']):
        res.hit('probe.duplicate_triples_in_world')
    # the sequential execution itself must leave its arguments unchanged
    seq_pristine = World(trace['world']).digests()
    if ref_after != seq_pristine:
        bad = [names[i] for i in range(len(names)) if ref_after[i] != seq_pristine[i]]
        res.violate('arguments', 'mutated-by-sequential-execution', objects=bad,
                    scripts=[[o['op'] for o in ops] for ops in clients])

    # ---- transport phase (before any client thread exists) ------------------------------------------------
    tp = trace.get('transport') or {}
    if tp.get('fork') or tp.get('spawn'):
        transport_phase(trace, tp, reference, res)

    # ---- threaded phase ----------------------------------------------------------------------------------
    opname = {op['id']: op['op'] for ops in clients for op in ops}
    cur_op = {}

    def check_shared(where, ci=None):
        now = world.digests()
        if now != pristine:
            bad = [names[i] for i in range(len(names)) if now[i] != pristine[i]]
            res.violate('arguments', 'shared-object-changed', objects=bad, where=where,
                        running={str(k): opname.get(v) for k, v in cur_op.items()})
            return False
        return True

    def on_switch(me, succ, frame):
        res.hit('probe.context_switch')
        site = (os.path.basename(frame.f_code.co_filename), frame.f_lineno) if frame is not None else ('?', 0)
        res.cover.add(digest.dumps(['sw', site[0], site[1], opname.get(cur_op.get(me)), opname.get(cur_op.get(succ))]))
        if len(res.violations) < 3:
            check_shared(f'context switch {me}->{succ} at {site[0]}:{site[1]}')

    cancels = [f for f in trace.get('faults', []) if f['kind'] == 'cancel']
    squeezes = {f['op_id']: f for f in trace.get('faults', []) if f['kind'] == 'recursion'}
    S = sched.Scheduler(len(clients), rng=Rng(cfg.get('sched_seed', 0)), p_switch=cfg.get('p_switch', 0.01),
                        files=cfg.get('files'), schedule=trace.get('schedule'), cancels=cancels,
                        step_cap=cfg.get('step_cap', 2_000_000), on_switch=on_switch)
    results = {}

    def make_body(ci, ops):
        def body(ctx):
            local = {'iters': []}
            for op in ops:
                cur_op[ci] = op['id']
                S.begin_op(ctx, op['id'])
                sq = squeezes.get(op['id'])
                old_limit = sys.getrecursionlimit()
                try:
                    if sq and len(clients) == 1:
                        sys.setrecursionlimit(_depth() + sq['headroom'])
                    try:
                        out = digest.canon(run_op(world, op, local))
                    finally:
                        sys.setrecursionlimit(old_limit)
                except sched.StepCapExceeded:
                    # bounded liveness of the threaded phase: the sequential reference of this very script returned
                    results[op['id']] = ['STEP-CAP']
                    if not any(v.oracle == 'termination' for v in res.violations):
                        res.violate('termination', 'threaded-phase-exceeded-step-cap', cap=S.step_cap, client=ci, op=op,
                                    note='the sequential execution of the same scripts returned; the largest threaded '
                                         'phase on the unchanged tree needs about 1 % of the cap')
                    break
                except sched.SimCancelled as e:
                    S.rearm()
                    res.hit('fault.cancel')
                    res.hit('probe.cancel_fired')
                    res.cover.add(digest.dumps(['cancel', op['op'], str(e).split(' at ')[-1]]))
                    out = ['CANCELLED']
                    after_fault(ci, op, local, 'cancel', str(e))
                except RecursionError as e:
                    S.rearm()
                    if sq:
                        res.hit('fault.recursion_squeeze')
                        res.hit('probe.recursion_squeeze_fired')
                        out = ['RECURSION']
                        after_fault(ci, op, local, 'recursion', '')
                    else:
                        out = digest.canon_exc(e)
                except Exception as e:
                    out = digest.canon_exc(e)
                results[op['id']] = out
                if len(res.violations) < 3:
                    check_shared(f'after operation {op["op"]} (id {op["id"]}) of client {ci}')
            cur_op.pop(ci, None)
        return body

    def after_fault(ci, op, local, kind, where):
        """After a cancelled call: shared arguments intact, and the same call re-issued gives the reference result."""
        ok = check_shared(f'after {kind} of {op["op"]} (id {op["id"]}) {where}')
        if op['op'] in ('iter_next', 'iter_open'):
            # a half-advanced private generator is a half-finished in-place operation: neither
            # re-issued nor compared from here on
            local['tainted'] = True
            return
        S.begin_op(S.ctx[ci], f'{op["id"]}r')
        again = result_canon(lambda: run_op(world, op, local))
        res.hit('probe.cancel_reissued')
        if again != reference[op['id']]:
            res.violate('after-fault', 'reissued-call-differs', op=op, fault=kind, where=where,
                        expected=_short(reference[op['id']]), got=_short(again))

    if len(clients) > 1:
        res.hit('probe.multi_client')
    else:
        res.hit('probe.single_client')
    S.run([make_body(ci, ops) for ci, ops in enumerate(clients)], first=cfg.get('first', 0) % len(clients))
    trace = dict(trace)
    trace['schedule'] = S.schedule
    res.trace = trace
    res.hit('step.line_steps', S.steps)
    res.hit('step.context_switches', S.switches)
    res.hit('step.operations', len(opname))
    if S.aborted:
        res.aborted = 'step_cap'
    if any(o['op'] == 'iter_next' for ops in clients for o in ops) and S.switches:
        res.hit('probe.lazy_iterator_interleaved')
    if any(o['op'] in ('or_then_ior', 'sub_then_isub', 'copy_then_top', 'configure_then_rearrange',
                       'configure_then_reset_variables', 'or_then_sort', 'indicate_then_ior',
                       'parse_then_edit_metadata', 'canonicalize_then_rearrange', 'decode_edit_marker_decode')
           for ops in clients for o in ops):
        res.hit('probe.inplace_on_derived')
    if any(o.get('pickle') for ops in clients for o in ops):
        res.hit('probe.pickle_transport')
    if any(o['op'] == 'reconfigure' and o.get('key') == 'random' for ops in clients for o in ops):
        res.hit('probe.random_key_constant_stream')

    # ---- oracle 1: refinement against the sequential execution -----------------------------------------------
    for ci, ops in enumerate(clients):
        for op in ops:
            got = results.get(op['id'], ['NOT-RUN'] if S.aborted else None)
            res.event(ci, op['id'], op['op'], digest.sha(got))
            if got in (['CANCELLED'], ['RECURSION'], ['STEP-CAP'], ['NOT-RUN']) or (isinstance(got, str) and got.startswith('not-judged')):
                continue
            if got != reference[op['id']]:
                res.violate('refinement', 'result-differs-from-sequential-execution', client=ci, op=op,
                            expected=_short(reference[op['id']]), got=_short(got),
                            switches=S.switches, scripts=[[o['op'] for o in ops_] for ops_ in clients])
                break
    check_shared('end of run')
    # models and codecs: compared only now, with the models of the sequentially used reference world
    mnames = [n for n, _ in world.shared()][len(names):]
    a = world.digests(models=True)[len(names):]
    b = ref_world.digests(models=True)[len(names):]
    if a != b:
        bad = [mnames[i] for i in range(len(mnames)) if a[i] != b[i]]
        res.violate('arguments', 'shared-model-differs-from-sequentially-used-model', objects=bad,
                    scripts=[[o['op'] for o in ops_] for ops_ in clients])

    if trace.get('enumerate_cancel'):
        enumerate_cancel(trace, reference, res)
    if trace.get('enumerate_switch'):
        enumerate_switch(trace, res)
    if trace.get('subprocess'):
        subprocess_pair(trace, res)


def _short(x):
    s = digest.dumps(x)
    return s if len(s) < 1500 else s[:1500] + '...'


def enumerate_switch(trace, res):
    """Every line event of call A as the one pre-emption point; call B runs to completion there; A resumes."""
    spec = trace['enumerate_switch']
    byid = {op['id']: op for ops_ in trace['clients'] for op in ops_}
    A, B = byid.get(spec['a']), byid.get(spec['b'])
    if A is None or B is None:
        return
    ref_a = result_canon(lambda: run_op(World(trace['world']), dict(A, pickle=False), {'iters': []}))
    ref_b = result_canon(lambda: run_op(World(trace['world']), dict(B, pickle=False), {'iters': []}))
    for k in range(1, spec.get('max_lines', 250) + 1):
        world = World(trace['world'])
        pristine = world.digests()
        state = {'bad': None}

        def on_switch(me, succ, frame, world=world, pristine=pristine, state=state):
            if world.digests() != pristine and state['bad'] is None:
                state['bad'] = (os.path.basename(frame.f_code.co_filename), frame.f_lineno) if frame is not None else ('?', 0)
        S = sched.Scheduler(2, rng=Rng(0), p_switch=0.0, schedule=[[0, A['id'], k, 1], [1, 'end', 0, 0]],
                            on_switch=on_switch)
        out = {}

        def body_a(ctx):
            S.begin_op(ctx, A['id'])
            out['a'] = result_canon(lambda: run_op(world, A, {'iters': []}))

        def body_b(ctx):
            S.begin_op(ctx, B['id'])
            out['b'] = result_canon(lambda: run_op(world, B, {'iters': []}))
        S.run([body_a, body_b], first=0)
        if not S.switches:
            break           # call A has fewer than k line events
        res.hit('probe.enumerated_switch_point')
        site = sorted(S.preempt_sites)[0] if S.preempt_sites else ('?', 0)
        res.cover.add(digest.dumps(['sw', site[0], site[1], A['op'], B['op']]))
        if state['bad'] is not None or world.digests() != pristine:
            res.violate('arguments', 'shared-object-changed', where=f'enumerated switch at line event {k} of {A["op"]} '
                        f'({site[0]}:{site[1]}), {B["op"]} ran in between', objects=[], running={'0': A['op'], '1': B['op']})
            break
        if out.get('a') != ref_a or out.get('b') != ref_b:
            which = 'a' if out.get('a') != ref_a else 'b'
            res.violate('refinement', 'result-differs-from-sequential-execution', client=0 if which == 'a' else 1,
                        op=A if which == 'a' else B, expected=_short(ref_a if which == 'a' else ref_b),
                        got=_short(out.get(which)), switches=1,
                        scripts=[[A['op']], [B['op']]], enumerated_switch=[k, site[0], site[1]])
            break


def enumerate_cancel(trace, reference, res):
    """Every line of one small call as a crash point (thorough tier)."""
    spec = trace['enumerate_cancel']
    ops = [op for ops_ in trace['clients'] for op in ops_ if op['id'] == spec['op_id']]
    if not ops or ops[0]['op'] in ('iter_next', 'iter_open'):
        return
    op = ops[0]
    # the reference result of this call on a world where it is the first call
    fresh_ref = result_canon(lambda: run_op(World(trace['world']), op, {'iters': []}))
    for k in range(1, spec.get('max_lines', 300) + 1):
        world = World(trace['world'])
        pristine = world.digests()
        S = sched.Scheduler(1, rng=Rng(0), p_switch=0.0, cancels=[{'client': 0, 'op_id': op['id'], 'at_line': k}])
        state = {}

        def body(ctx):
            S.begin_op(ctx, op['id'])
            local = {'iters': []}
            try:
                run_op(world, op, local)
                state['done'] = True
            except sched.SimCancelled as e:
                S.rearm()
                state['cancelled'] = str(e)
                S.begin_op(ctx, 'again')
                state['again'] = result_canon(lambda: run_op(world, op, local))
            except Exception:
                state['done'] = True
        S.run([body])
        if 'cancelled' not in state:
            break
        res.hit('fault.cancel_enumerated')
        res.cover.add(digest.dumps(['cancel', op['op'], state['cancelled'].split(' at ')[-1]]))
        if world.digests() != pristine:
            res.violate('arguments', 'shared-object-changed', where=f'cancel at line {k} of {op["op"]}: {state["cancelled"]}',
                        objects=[], running={})
            break
        if state.get('again') != fresh_ref:
            res.violate('after-fault', 'reissued-call-differs', op=op, fault='cancel', where=state['cancelled'],
                        expected=_short(fresh_ref), got=_short(state.get('again')))
            break


def _child_run(args):
    """Executed in a fork/spawn worker: rebuild nothing, operate on the pickled world."""
    world, ops = args
    out = {}
    local = {'iters': []}
    with simrandom.installed({'mode': 'constant'}) as stream:     # a spawned interpreter starts with the real PRNG
        _probe_prng(stream)
        for op in ops:
            out[op['id']] = result_canon(lambda: run_op(world, op, local))
    return out


def transport_phase(trace, tp, reference, res):
    import multiprocessing as mp
    ops = [op for ops_ in trace['clients'] for op in ops_ if op['op'] not in ('iter_open', 'iter_next')][:12]
    if not ops:
        return
    for kind in ('fork', 'spawn'):
        if not tp.get(kind):
            continue
        world = World(trace['world'])
        ctx = mp.get_context(kind)
        old = os.environ.get('PYTHONHASHSEED')
        if kind == 'spawn':
            os.environ['PYTHONHASHSEED'] = '2718'
        try:
            with ctx.Pool(1) as pool:
                out = pool.apply_async(_child_run, ((world, ops),)).get(timeout=120)
        finally:
            if old is None:
                os.environ.pop('PYTHONHASHSEED', None)
            else:
                os.environ['PYTHONHASHSEED'] = old
        res.hit(f'probe.{kind}_worker')
        res.hit(f'fault.{kind}_transport')
        for op in ops:
            # a client-local iterator is not part of the transported state
            if out.get(op['id']) != reference[op['id']]:
                res.violate('process', f'{kind}-worker-result-differs', op=op, expected=_short(reference[op['id']]),
                            got=_short(out.get(op['id'])))
                return


def subprocess_pair(trace, res):
    """python -m penman on the world's texts under two hash seeds: byte-identical output."""
    items = trace['world']['items']
    w = World(trace['world'])
    d = tempfile.mkdtemp(prefix='vsim-c17-')
    try:
        for mi in sorted(set(w.mi)):
            spec = trace['world']['models'][mi]
            texts = [t for t, m in zip(w.texts, w.mi) if m == mi]
            with open(os.path.join(d, f'in{mi}.penman'), 'w', encoding='utf-8') as fh:
                fh.write('\n\n'.join(texts) + '\n')
            argv = gmodels.cli_args(spec, os.path.join(d, 'model.json'))
            if spec['kind'] == 'custom':
                import json
                with open(os.path.join(d, 'model.json'), 'w', encoding='utf-8') as fh:
                    json.dump(spec['spec'], fh, ensure_ascii=False)
            r = Rng(trace.get('run', 0) * 31 + mi)
            opts = {'indent': r.pick([-1, None, 2]), 'compact': r.chance(0.3)}
            for f in ('canonicalize_roles', 'reify_edges', 'dereify_edges', 'reify_attributes', 'indicate_branches'):
                if r.chance(0.4):
                    opts[f] = True
            if r.chance(0.4):
                opts['rearrange'] = [r.pick(['canonical', 'alphanumeric', 'attributes-first'])]
            if r.chance(0.3):
                opts['reconfigure'] = [r.pick(['original', 'canonical'])]
            if r.chance(0.3):
                opts['check'] = True
            argv = argv + cli_pipeline.cli_args(opts) + [os.path.join(d, f'in{mi}.penman'), '--encoding', 'utf-8']
            outs = [cli.run_subprocess(argv, cwd=d, hashseed=hs, optimize=(hs == '777')) for hs in ('0', '777')]
            res.hit('probe.subprocess_hashseed_pair')
            res.event('subprocess', mi, outs[0][0], digest.sha(outs[0][1].hex()))
            if outs[0][:2] != outs[1][:2]:
                res.violate('process', 'cli-output-differs-across-hash-seeds', argv=argv,
                            a=outs[0][1].decode('utf-8', 'replace')[:1500], b=outs[1][1].decode('utf-8', 'replace')[:1500])
                return
    finally:
        shutil.rmtree(d, ignore_errors=True)


# --------------------------------------------------------------------------

def shrink(trace):
    clients = trace['clients']
    # drop whole clients (never all)
    if len(clients) > 1:
        for ci in range(len(clients)):
            t = copy.deepcopy(trace)
            del t['clients'][ci]
            t['schedule'] = _renumber(trace.get('schedule'), ci)
            t['faults'] = [dict(f, client=f['client'] - (f['client'] > ci)) for f in trace.get('faults', [])
                           if f['client'] != ci]
            t['config'] = dict(trace['config'], first=0)
            yield t
    for ci in range(len(clients)):
        for keep in ddmin_list(clients[ci]):
            if keep or len(clients) > 1:
                yield with_path(trace, ['clients', ci], keep)
    yield from list_candidates(trace, ['faults'])
    if trace.get('schedule'):
        yield from list_candidates(trace, ['schedule'])
    for key in ('transport', 'subprocess', 'enumerate_cancel', 'enumerate_switch'):
        if trace.get(key):
            t = copy.deepcopy(trace)
            t[key] = {} if key == 'transport' else None
            yield t
    if trace['config'].get('debug_logging'):
        yield with_path(trace, ['config', 'debug_logging'], False)
    if trace['config'].get('log_levels') not in (None, ['WARNING', 'WARNING']):
        yield with_path(trace, ['config', 'log_levels'], ['WARNING', 'WARNING'])
    # simplify world items that no remaining operation refers to: replace by a trivial graph
    trivial = {'kind': 'decoded', 'model': 0, 'meta': [], 'tree': ['a', [['/', 'b']]]}
    for i, it in enumerate(trace['world']['items']):
        if it != trivial:
            yield with_path(trace, ['world', 'items', i], trivial)
    for i, it in enumerate(trace['world']['items']):
        if it.get('meta'):
            yield with_path(trace, ['world', 'items', i, 'meta'], [])
        if 'tree' in it:
            from .c09 import _tree_simplifications, _drop_branch
            for path, bi in _tree_simplifications(it['tree']):
                yield with_path(trace, ['world', 'items', i, 'tree'], _drop_branch(it['tree'], path, bi))
    for ci, ops in enumerate(clients):
        for k, op in enumerate(ops):
            if op.get('pickle'):
                yield with_path(trace, ['clients', ci, k, 'pickle'], False)


def _renumber(schedule, removed):
    if not schedule:
        return schedule
    out = []
    for c, op, line, succ in schedule:
        if c == removed:
            continue
        if succ == removed:
            continue
        out.append([c - (c > removed), op, line, succ - (succ > removed)])
    return out


KNOWN = {}
