"""Reference for Model.errors, written from its docstring and the property
statement: 'invalid role' for exactly the triples whose role the model does
not define (directly or as a single inversion); 'unreachable' for exactly the
triples whose source is not weakly connected to the top; the empty / top
messages exactly when they apply.  Union-find, no penman code."""


def ref_errors(triples, explicit_top, mref):
    err = {}
    if not triples:
        return {None: {'graph is empty'}}
    for t in triples:
        if not mref.has_role(t[1]):
            err.setdefault(tuple(t), set()).add('invalid role')
    sources = {t[0] for t in triples}
    top = explicit_top if explicit_top is not None else triples[0][0]
    if not top:
        err.setdefault(None, set()).add('top is not set')
    elif top not in sources:
        err.setdefault(None, set()).add('top is not a variable in the graph')
    else:
        parent = {v: v for v in sources}

        def find(x):
            while parent[x] != x:
                parent[x] = parent[parent[x]]
                x = parent[x]
            return x

        for s, r, t in triples:
            if r != ':instance' and t in sources:
                parent[find(s)] = find(t)
        root = find(top)
        for t in triples:
            if find(t[0]) != root:
                err.setdefault(tuple(t), set()).add('unreachable')
    return err


def canon_errors(err):
    out = []
    for k, msgs in err.items():
        out.append([None if k is None else [str(x) if x is not None else None for x in k],
                    sorted(set(msgs))])
    out.sort(key=lambda x: str(x))
    return out
