"""Independent sort keys for the documented branch-ordering methods
(docs/command.rst, Model.*_order docstrings)."""


def alphanumeric(role):
    i = len(role)
    while i > 0 and role[i - 1] in '0123456789':       # decimal digits only: '²' or '₂' are letters of the name
        i -= 1
    if i < len(role) and i > 0:
        return (role[:i], int(role[i:]))
    return (role, 0)


def make_key(names, mref):
    """names: list of documented key names, combined in prioritized order."""
    def key(role):
        out = []
        for n in names:
            if n == 'alphanumeric':
                out.append(alphanumeric(role))
            elif n == 'canonical':
                out.append((mref.is_inverted(role), alphanumeric(role)))
            elif n == 'inverted-last':
                out.append(mref.is_inverted(role))
            elif n == 'original':
                out.append(True)
            # 'attributes-first' is a flag, 'random' has no reference order
        return out
    return key
