"""String-aware top-level splitter for the tool's output (independent of the
penman lexer).  A block is the run of '#' comment lines directly preceding a
graph plus the graph's text from its opening to its matching closing
parenthesis.  Returns (blocks, separators, problems)."""


def split_blocks(text):
    blocks = []
    seps = []
    problems = []
    i, n = 0, len(text)
    cur_comments = []
    sep_start = 0
    while i < n:
        ch = text[i]
        if ch in ' \t\r\n\x0b\x0c':
            i += 1
            continue
        if ch == '#':
            j = text.find('\n', i)
            if j < 0:
                j = n
            if not cur_comments:
                seps.append(text[sep_start:i])
            cur_comments.append(text[i:j])
            i = j
            continue
        if ch == '(':
            if not cur_comments:
                seps.append(text[sep_start:i])
            start = i
            depth = 0
            while i < n:
                c = text[i]
                if c == '"':
                    i += 1
                    while i < n and text[i] != '"':
                        if text[i] == '\\':
                            i += 1
                        i += 1
                elif c == '(':
                    depth += 1
                elif c == ')':
                    depth -= 1
                    if depth == 0:
                        i += 1
                        break
                i += 1
            else:
                problems.append(f'unbalanced graph starting at {start}')
            blocks.append({'comments': cur_comments, 'graph': text[start:i]})
            cur_comments = []
            sep_start = i
            continue
        # anything else at top level
        j = i
        while j < n and text[j] not in '\n':
            j += 1
        problems.append(f'unexpected top-level text at {i}: {text[i:j][:40]!r}')
        i = j
    if cur_comments:
        problems.append('comments after the last graph')
    tail = text[sep_start:] if not cur_comments else ''
    return blocks, seps, tail, problems


def block_text(b):
    return '\n'.join(list(b['comments']) + [b['graph']])


def tokens(s):
    """Whitespace-insensitive, string-aware tokenisation (for --triples output)."""
    out = []
    i, n = 0, len(s)
    cur = []
    while i < n:
        c = s[i]
        if c == '"':
            j = i + 1
            while j < n and s[j] != '"':
                if s[j] == '\\':
                    j += 1
                j += 1
            cur.append(s[i:j + 1])
            i = j + 1
            continue
        if c in ' \t\r\n\x0b\x0c':
            if cur:
                out.append(''.join(cur))
                cur = []
        else:
            cur.append(c)
        i += 1
    if cur:
        out.append(''.join(cur))
    return out
