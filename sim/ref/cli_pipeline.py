"""The documented library pipeline of the `penman` command (docs/command.rst,
docs/library.rst), composed from public library calls only:

  parse -> canonicalise roles -> interpret -> reify edges -> dereify edges ->
  reify attributes -> indicate branches -> reconfigure (with the selected
  model) or configure -> rearrange -> relabel -> format / format_triples

one output block per input graph, in order, across all sources.
"""

REARRANGE = {'random': 'random_order', 'canonical': 'canonical_order',
             'alphanumeric': 'alphanumeric_order', 'inverted-last': 'is_role_inverted'}
RECONFIGURE = {'original': 'original_order', 'random': 'random_order',
               'canonical': 'canonical_order'}


def _key(names, model, table):
    funcs = [getattr(model, table[n]) for n in names if n in table]

    def key(role):
        return [f(role) for f in funcs]
    return key


def run(sources, model, opts):
    """sources: list of texts (str) in command-line order.  Returns list of
    (block text, graph-as-checked) per input graph."""
    from penman import layout, transform
    from penman.codec import PENMANCodec
    codec = PENMANCodec(model=model)
    out = []
    for text in sources:
        for t in codec.iterparse(text):
            if opts.get('canonicalize_roles'):
                t = transform.canonicalize_roles(t, model)
            g = layout.interpret(t, model)
            if opts.get('reify_edges'):
                g = transform.reify_edges(g, model)
            if opts.get('dereify_edges'):
                g = transform.dereify_edges(g, model)
            if opts.get('reify_attributes'):
                g = transform.reify_attributes(g)
            if opts.get('indicate_branches'):
                g = transform.indicate_branches(g, model)
            checked = g
            if opts.get('check'):
                errs = model.errors(g)
                i = 1
                for triple, msgs in errs.items():
                    ctx = '({}) '.format(' '.join(map(str, triple))) if triple else ''
                    for m in msgs:
                        g.metadata[f'error-{i}'] = ctx + m
                    i += 1
            if opts.get('triples'):
                s = codec.format_triples(g.triples, indent=bool(opts.get('indent', -1)))
                out.append((s, checked))
                continue
            if opts.get('reconfigure'):
                names = opts['reconfigure']
                t = layout.reconfigure(g, model=model, key=_key(names, model, RECONFIGURE))
            else:
                t = layout.configure(g, model=model)
            if opts.get('rearrange'):
                names = opts['rearrange']
                layout.rearrange(t, key=_key(names, model, REARRANGE),
                                 attributes_first='attributes-first' in names)
            if opts.get('make_variables'):
                t.reset_variables(opts['make_variables'])
            s = codec.format(t, indent=opts.get('indent', -1), compact=bool(opts.get('compact')))
            out.append((s, checked))
    return out


def cli_args(opts):
    """Option dict -> argv fragments (no model, no files)."""
    a = []
    ind = opts.get('indent', -1)
    if 'indent_arg' in opts:
        a += ['--indent', opts['indent_arg']]
    elif ind is None:
        a += ['--indent', 'no']
    elif ind != -1:
        a += ['--indent', str(ind)]
    if opts.get('compact'):
        a.append('--compact')
    if opts.get('triples'):
        a.append('--triples')
    if opts.get('check'):
        a.append('--check')
    if opts.get('make_variables'):
        a += ['--make-variables', opts['make_variables']]
    if opts.get('rearrange'):
        a += ['--rearrange', ','.join(opts['rearrange'])]
    if opts.get('reconfigure'):
        a += ['--reconfigure', ','.join(opts['reconfigure'])]
    for k in ('canonicalize_roles', 'reify_edges', 'dereify_edges', 'reify_attributes',
              'indicate_branches'):
        if opts.get(k):
            a.append('--' + k.replace('_', '-'))
    a += ['-v'] * int(opts.get('verbosity', 0))
    return a
