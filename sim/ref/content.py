"""Abstract content of a graph and related reference computations, written from
the property statements and docs/structures.rst; never calls penman code
(only reads ``g.triples`` / ``g.top``)."""

import collections


def written(x):
    """constants are compared by their written form"""
    return None if x is None else str(x)


def variables_of(triples, top=None):
    vs = {t[0] for t in triples}
    if top is not None:
        vs.add(top)
    return vs


def content_of_triples(triples, top, mref, deinvert=True):
    """(top, frozenset(variables), Counter of triples with edges deinverted once)"""
    vs = variables_of(triples, top)
    bag = collections.Counter()
    for s, r, t in triples:
        if deinvert and r != ':instance' and t in vs and mref.is_inverted(r):
            s, r, t = t, r[:-3], s
        bag[(s, r, written(t))] += 1
    return (top, frozenset(vs), bag)


def content_of_graph(g, mref, deinvert=True):
    return content_of_triples(list(g.triples), g.top, mref, deinvert)


def content_json(c):
    top, vs, bag = c
    return {'top': top, 'variables': sorted(vs, key=str),
            'triples': sorted(([list(k), n] for k, n in bag.items()), key=lambda x: str(x))}


def content_diff(a, b):
    (ta, va, ba), (tb, vb, bb) = a, b
    d = {}
    if ta != tb:
        d['top'] = [ta, tb]
    if va != vb:
        d['variables'] = [sorted(va - vb, key=str), sorted(vb - va, key=str)]
    if ba != bb:
        d['only_expected'] = sorted(([list(k), n] for k, n in (ba - bb).items()), key=str)
        d['only_actual'] = sorted(([list(k), n] for k, n in (bb - ba).items()), key=str)
    return d


def weakly_connected(triples, top):
    """Is every variable (every source, and the top) weakly connected to top?
    Edges are non-instance triples whose target is a variable."""
    vs = variables_of(triples, top)
    if not vs:
        return True
    parent = {v: v for v in vs}

    def find(x):
        while parent[x] != x:
            parent[x] = parent[parent[x]]
            x = parent[x]
        return x

    for s, r, t in triples:
        if r != ':instance' and t in vs:
            parent[find(s)] = find(t)
    if top not in parent:
        return False
    root = find(top)
    return all(find(v) == root for v in vs)


def well_formed(triples, top=None):
    """each source has exactly one instance triple; triples pairwise distinct"""
    seen = set()
    inst = collections.Counter()
    for t in triples:
        t = tuple(t)
        if t in seen:
            return False
        seen.add(t)
        if t[1] == ':instance':
            inst[t[0]] += 1
    vs = variables_of(triples, top)
    if any(not isinstance(v, str) for v in vs):
        return False      # variables are symbols of the notation; anything else cannot be read back as itself
    return all(inst[v] == 1 for v in vs)
