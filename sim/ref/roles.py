"""Independent reference for role membership / inversion, written from
docs (model API docs, notation.rst): a role is *defined* by a model when it
fully matches one of the model's role patterns, its top role or its concept
role; a role is *inverted* when it ends in "-of" and is not itself defined.
Never calls penman.model.Model methods.
"""

import re


class ModelRef:
    def __init__(self, kind, roles, top_role=':TOP', concept_role=':instance',
                 normalizations=None, reifications=None):
        self.kind = kind          # 'default' | 'amr' | 'noop' | 'custom'
        self.role_patterns = list(roles)
        self.top_role = top_role
        self.concept_role = concept_role
        self.normalizations = dict(normalizations or {})
        self.reifications = [tuple(r) for r in (reifications or [])]
        self._pats = [re.compile(p) for p in self.role_patterns]

    def defined(self, role) -> bool:
        if role in (self.top_role, self.concept_role):
            return True
        return any(p.fullmatch(role) is not None for p in self._pats)

    def is_inverted(self, role) -> bool:
        return role.endswith('-of') and not self.defined(role)

    def has_role(self, role) -> bool:
        """defined directly or as a single inversion"""
        return self.defined(role) or (role.endswith('-of') and self.defined(role[:-3]))

    def invert_role(self, role):
        return role[:-3] if self.is_inverted(role) else role + '-of'

    def deinverts(self) -> bool:
        return self.kind != 'noop'

    def reifiable_roles(self):
        return sorted({r[0] for r in self.reifications})


def model_ref(spec) -> ModelRef:
    kind = spec['kind']
    if kind in ('default', 'noop'):
        return ModelRef(kind, [])
    if kind == 'amr':
        # the AMR tables as documented at the pinned commit (sim/ref/amr_tables.json), not the tables of the tree
        # under test: a reference that imported them from penman would follow any change made to them
        import json
        import os
        with open(os.path.join(os.path.dirname(os.path.abspath(__file__)), 'amr_tables.json'), encoding='utf-8') as fh:
            tables = json.load(fh)
        return ModelRef('amr', list(tables['roles']), normalizations=tables['normalizations'],
                        reifications=tables['reifications'])
    s = spec['spec']
    return ModelRef('custom', list(s.get('roles', {})),
                    top_role=s.get('top_role', ':TOP'),
                    concept_role=s.get('concept_role', ':instance'),
                    normalizations=s.get('normalizations'),
                    reifications=s.get('reifications'))
