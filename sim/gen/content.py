"""Seeded generation of abstract graph content and of tree layouts for it.

Content = {'top': v, 'triples': [[s, r, t], ...]}: well-formed (exactly one
instance triple per variable, triples pairwise distinct, every source a
variable), weakly connected, all edge roles non-inverted under the model.
A *layout* of a content is a tree (JSON: [var, [[role, target], ...]]) that a
human could have written for it: random node sites, random inversions,
re-entrancies, cycles back to ancestors, optional alignments.
"""

from . import models

VAR_POOLS = [
    ['a', 'b', 'c', 'd', 'e', 'f', 'g', 'h'],
    ['x', 'y', 'z', 'w', 'x2', 'y2', 'z2', 'w2'],
    ['_', '_2', 'a', '_3', 'b', 'c2', 'd', 'n1'],          # collide with fresh reification vars
    ['s', 's2', 'b', 'p', 'n', 'g', 'i', 't'],
    ['_', '_9', '_10', '_2', 'a', '_11', 'b', '_3'],      # names reification generates, incl. two-digit ones
    ['b', 'b0', 'n1', 'n01', 'x', 'x0', 'y', 'y00'],      # names that tie under (prefix, int(suffix)) keys
    ['_', '_\u00b2', 'a', '_\u2460', '_2', 'b', '_\u0663', 'c'],   # "_" + characters that are digits but not 0-9
]
CONCEPTS = ['alpha', 'beta', 'go-01', 'want-01', 'dog', 'bark-01', 'person', 'name', 'chapter',
            'a', 'b', 'x', '_',                          # concepts spelled like variables
            '"string concept"', 'thing', 'and', 'café', '7',
            'c#', 'ticket#42']                           # '#' inside a symbol is part of the symbol
REIF_CONCEPTS_AMR = ['have-mod-91', 'be-located-at-91', 'have-quant-91', 'own-01', 'have-part-91',
                     'age-01', 'have-03']
SYMBOLS = ['-', '+', 'imperative', 'expressive', 'foo', 'bar-baz', 'x.y', 'A', 'Ünï']
NUMBERS = ['0', '1', '7', '-1', '1.5', '0.0', '-0.5', '10', '2e3']
STRINGS = ['"Kim"', '"New York"', '""', '"a b  c"', '"(paren)"', '"semi;colon"', '"co:lon"',
           '"til~de"', '"sl/ash"', '"hash # tag"', '"esc \\" quote"', '"back\\\\slash"',
           '"http://x.y/~z"', '"日本語"', '"x~e.1"']
EXOTIC_STRINGS = ['"a\u2028b"', '"a\u0085b"', '"a\x0bb"', '"a\x0cb"', '"a\u2029b"', '"a\x1cb"',
                  '"a\x1db"', '"a\x1eb"']


class ContentCfg:
    def __init__(self, **kw):
        self.max_nodes = 5
        self.p_concept = 0.85
        self.p_extra_edge = 0.35
        self.max_attrs = 2
        self.p_string = 0.3
        self.p_number = 0.3
        self.p_none_target = 0.0
        self.p_inverted_attr = 0.0
        self.p_self_loop = 0.05
        self.exotic = 0.0           # probability of a string with an exotic line separator
        self.reifiable = 0.0        # bias towards roles that have reifications
        self.reified_nodes = 0.0    # probability of adding a collapsible reified node
        self.invalid_roles = 0.0
        self.extra_edge_roles = []      # e.g. the model's top role as an ordinary (valid) relation
        self.var_like_constants = 0.0   # constants spelled like variables of *other* graphs
        self.avoid_ambiguous = False   # skip AMR's include-91 / :subset / :superset (finding F4)
        self.__dict__.update(kw)


def gen_content(rng, spec, cfg=None):
    cfg = cfg or ContentCfg()
    edge_roles, attr_roles = models.inventory(spec)
    from ..ref.roles import model_ref
    mref = model_ref(spec)
    reif_roles = [r for r in mref.reifiable_roles() if not mref.is_inverted(r)]
    reifications = list(mref.reifications)
    if cfg.avoid_ambiguous:
        reif_roles = [r for r in reif_roles if r not in (':subset', ':superset')]
        reifications = [r for r in reifications if r[1] != 'include-91']
    bad_roles = models.invalid_roles(spec)
    pool = list(rng.pick(VAR_POOLS))
    k = 0
    while cfg.max_nodes > len(pool):
        k += 1
        name = f'{pool[k % 4]}{20 + k}'
        if name not in pool:
            pool.append(name)
    n = 1 + rng.randrange(cfg.max_nodes)
    vars_ = pool[:n] if rng.chance(0.5) else rng.sample(pool, n)
    triples = []
    seen = set()

    def add(t):
        t = tuple(t)
        if t in seen:
            return False
        seen.add(t)
        triples.append(list(t))
        return True

    def edge_role():
        if cfg.extra_edge_roles and rng.chance(0.15):
            return rng.pick(cfg.extra_edge_roles)
        if bad_roles and rng.chance(cfg.invalid_roles):
            return rng.pick(bad_roles)
        if reif_roles and rng.chance(cfg.reifiable):
            return rng.pick(reif_roles)
        return rng.pick(edge_roles)

    def attr_role():
        if bad_roles and rng.chance(cfg.invalid_roles):
            return rng.pick(bad_roles)
        if reif_roles and rng.chance(cfg.reifiable):
            return rng.pick(reif_roles)
        return rng.pick(attr_roles)

    def constant():
        if rng.chance(cfg.var_like_constants):
            return rng.pick(['a', 'b', 'x', 'y', 's', 's2', '_', 'c', 'g'])
        if rng.chance(cfg.exotic):
            return rng.pick(EXOTIC_STRINGS)
        x = rng.random()
        if x < cfg.p_string:
            return rng.pick(STRINGS)
        if x < cfg.p_string + cfg.p_number:
            return rng.pick(NUMBERS)
        return rng.pick(SYMBOLS)

    # instance triples
    for v in vars_:
        c = rng.pick(CONCEPTS) if rng.chance(cfg.p_concept) else None
        add((v, ':instance', c))
    # spanning tree keeps it weakly connected
    for i in range(1, n):
        p = vars_[rng.randrange(i)]
        c = vars_[i]
        for _ in range(5):
            r = edge_role()
            if add((p, r, c) if rng.chance(0.6) else (c, r, p)):
                break
        else:
            add((p, f':rel{i}', c))
    # extra edges (re-entrancies, cycles, self loops)
    if n > 1:
        for _ in range(n):
            if rng.chance(cfg.p_extra_edge):
                s, t = rng.pick(vars_), rng.pick(vars_)
                if s == t and not rng.chance(cfg.p_self_loop * 4):
                    continue
                add((s, edge_role(), t))
    elif rng.chance(cfg.p_self_loop):
        add((vars_[0], edge_role(), vars_[0]))
    # attributes
    varset = set(vars_)
    for v in vars_:
        for _ in range(rng.randrange(cfg.max_attrs + 1)):
            r = attr_role()
            c = constant()
            if rng.chance(cfg.p_none_target):
                c = None
            if rng.chance(cfg.p_inverted_attr):
                r = r + '-of'
            if c in varset:
                continue
            add((v, r, c))
    # collapsible reified node (for dereification): (x :ARG1-of (_ / concept :ARG2 y))
    if reifications and rng.chance(cfg.reified_nodes):
        role, concept, srole, trole = rng.pick(reifications)
        names = ['r', 'r2', 'q', '_', '_2', '_3', 'k9'] if rng.chance(0.5) else ['r2', 'h2', 'm1', '_2', 'r', 'k9', 'q']
        fresh = next(v for v in names if v not in varset)
        src = rng.pick(vars_)
        tgt = rng.pick(vars_) if rng.chance(0.5) else constant()
        if rng.chance(0.06) and tgt in vars_:
            src = fresh       # a reified node that refers to itself in one argument (never collapsible)
        if tgt != fresh:
            add((fresh, ':instance', concept))
            add((fresh, srole, src))
            add((fresh, trole, tgt))
            varset.add(fresh)
    top = vars_[0]
    order = rng.sub('order')
    if order.chance(0.3):
        order.shuffle(triples)
    return {'top': top, 'triples': triples}


def variables(content):
    vs = []
    for s, r, t in content['triples']:
        if s not in vs:
            vs.append(s)
    if content.get('top') is not None and content['top'] not in vs:
        vs.append(content['top'])
    return vs


class LayoutCfg:
    def __init__(self, **kw):
        self.p_nest = 0.8          # define a node at its first mention
        self.p_align = 0.0
        self.p_empty_concept_slot = 0.1   # write "(a /)" instead of "(a)"
        self.shuffle = True
        self.__dict__.update(kw)


def layout_tree(rng, content, spec, cfg=None, top=None):
    """Lay content out as a tree.  Returns JSON node [var, branches]."""
    cfg = cfg or LayoutCfg()
    from ..ref.roles import model_ref
    mref = model_ref(spec)
    triples = [tuple(t) for t in content['triples']]
    vs = variables(content)
    varset = set(vs)
    top = top if top is not None else content['top']
    concept = {}
    rest = []
    for t in triples:
        if t[1] == ':instance':
            concept[t[0]] = t[2]
        else:
            rest.append(t)
    emitted = set()
    placed = {}

    def aln(kind):
        if not rng.chance(cfg.p_align):
            return ''
        idx = str(rng.randrange(12))
        if rng.chance(0.3):
            idx += ',' + str(rng.randrange(12))
        pre = rng.pick(['', '', 'e.', 'e', 'x.'])
        return '~' + pre + idx

    def atom(x):
        return x

    def build(v):
        branches = []
        node = [v, branches]
        placed[v] = node
        c = concept.get(v)
        if c is not None:
            branches.append(['/', str(c) + aln('c')])
        elif rng.chance(cfg.p_empty_concept_slot):
            branches.append(['/', None])
        mine = [t for t in rest if (t[0] == v or (t[2] == v and t[2] in varset and t[0] != v))]
        if cfg.shuffle:
            rng.shuffle(mine)
        for t in mine:
            if t in emitted:
                continue
            emitted.add(t)
            s, r, tg = t
            if s == v:
                role = r + aln('r')
                if tg in varset and tg not in placed and rng.chance(cfg.p_nest):
                    branches.append([role, build(tg)])
                elif tg in varset:
                    branches.append([role, tg + aln('t')])
                else:
                    branches.append([role, None if tg is None else str(tg) + (aln('t') if tg != '' else '')])
            else:
                # incoming edge (s r v): written from v with the inverted role
                role = mref.invert_role(r) + aln('r')
                if s not in placed and rng.chance(cfg.p_nest):
                    branches.append([role, build(s)])
                else:
                    branches.append([role, s + aln('t')])
        return node

    root = build(top)
    # establish sites for variables that were only mentioned
    progress = True
    while progress and len(placed) < len(vs):
        progress = False
        for v in vs:
            if v in placed:
                continue
            site = _find_reference(root, v)
            if site is not None:
                branches, i = site
                role = branches[i][0]
                branches[i] = [role, None]        # placeholder while building
                sub = build(v)
                branches[i] = [role, sub]
                progress = True
                break
    if len(placed) < len(vs):
        raise AssertionError('layout_tree: content not connected')
    return root


def _find_reference(node, v):
    var, branches = node
    for i, (role, tgt) in enumerate(branches):
        if isinstance(tgt, list):
            r = _find_reference(tgt, v)
            if r is not None:
                return r
        elif role != '/' and isinstance(tgt, str):
            base = tgt.split('~', 1)[0] if not tgt.startswith('"') else tgt
            if base == v:
                branches[i] = [role, v]   # a target alignment cannot stay on a node
                return branches, i
    return None


def to_penman_node(node):
    """JSON node -> penman tree node tuple."""
    var, branches = node
    return (var, [(r, to_penman_node(t) if isinstance(t, list) else t) for r, t in branches])


def node_count(node):
    return 1 + sum(node_count(t) for _, t in node[1] if isinstance(t, list))
