"""Model specs (JSON-able) and construction of the real penman Model objects."""

DEFAULT = {'kind': 'default'}
AMR = {'kind': 'amr'}
NOOP = {'kind': 'noop'}

# unambiguous custom tables (each concept dereifies to exactly one role)
CUSTOM_SPECS = [
    {
        # (':snt\\d': a pattern whose only regular-expression syntax is a backslash escape)
        'roles': {':ARG[0-9]': {}, ':mod': {}, ':domain': {}, ':op[0-9]+': {}, ':part-of': {}, ':snt\\d': {}, ':q.': {},
                  ':loc': {}, ':name': {}, ':quant': {}, ':polarity': {}},
        'normalizations': {':mod-of': ':domain', ':domain-of': ':mod'},
        'reifications': [[':mod', 'have-mod-91', ':ARG1', ':ARG2'],
                         [':loc', 'be-located-at-91', ':ARG1', ':ARG2'],
                         [':quant', 'have-quant-91', ':ARG1', ':ARG2']],
    },
    {
        'top_role': ':ROOT',
        'roles': {':R[a-c]': {}, ':x-of': {}, ':rel': {}, ':val': {}, ':r\u00f4le': {}, ':u|:v': {}, '(:w|:ww)-of': {}},      # a role that is not ASCII
        'normalizations': {':relation': ':rel'},
        'reifications': [[':rel', 'relate-01', ':ARG0', ':ARG1'],
                         [':val', 'value-01', ':ARG1', ':ARG2']],
    },
    {
        # patterns that can match a name ending in "-of" without any key that literally ends in "-of": whether a role
        # is inverted is decided by the patterns, not by the spelling of the keys
        'roles': {':prep-[a-z]+(-[a-z]+)?': {}, ':ARG[0-9]': {}, ':w(-of|of)': {}, ':name': {}, ':quant': {}},
        'normalizations': {},
        'reifications': [[':quant', 'have-quant-91', ':ARG1', ':ARG2']],
    },
]


# a table in which roles have several reifications and concepts serve several roles (ambiguous in C11's sense, so
# only used where the property does not care: C17 demands identical results, whatever they are).  The order of the
# entries matters: Model.reify takes a role's *first* reification
MULTI_REIFICATION_SPEC = dict(
    CUSTOM_SPECS[0],
    reifications=[[':mod', 'have-mod-91', ':ARG1', ':ARG2'],
                  [':loc', 'be-located-at-91', ':ARG1', ':ARG2'],
                  # a concept shared by two roles with the *same* argument roles, and the roles interleaved:
                  # which role a be-located-at-91 node dereifies to depends on the order inside the table
                  [':mod', 'be-located-at-91', ':ARG1', ':ARG2'],
                  [':loc', 'have-mod-91', ':ARG3', ':ARG4'],
                  [':quant', 'have-quant-91', ':ARG1', ':ARG2'],
                  [':quant', 'be-located-at-91', ':ARG3', ':ARG4']])


def custom_any(i):
    """custom(i), or every third time the multi-reification table"""
    if i % 3 == 2:
        return {'kind': 'custom', 'spec': MULTI_REIFICATION_SPEC}
    return custom(i)


# a model whose concept role is not ':instance' (so ':instance' itself is an undefined role): C16 only
OWN_CONCEPT_ROLE = {'kind': 'custom', 'spec': dict(CUSTOM_SPECS[0], concept_role=':isa')}


def custom(i):
    return {'kind': 'custom', 'spec': CUSTOM_SPECS[i % len(CUSTOM_SPECS)]}


def make_model(spec):
    """Build the real penman model object for a spec."""
    kind = spec['kind']
    if kind == 'default':
        from penman.model import Model
        return Model()
    if kind == 'amr':
        from penman.models.amr import model
        return model
    if kind == 'noop':
        from penman.models.noop import model
        return model
    from penman.model import Model
    s = spec['spec']
    return Model(**{k: ([tuple(r) for r in v] if k == 'reifications' else v)
                    for k, v in s.items()})


def cli_args(spec, scratch_file=None):
    kind = spec['kind']
    if kind == 'default':
        return []
    if kind == 'amr':
        return ['--amr']
    if kind == 'noop':
        return ['--noop']
    return ['--model', scratch_file]


# role inventories used by the generators: (edge roles, attribute roles);
# all are *non-inverted* and defined under the model they are listed for
def inventory(spec):
    kind = spec['kind']
    if kind in ('default', 'noop'):
        edge = [':ARG0', ':ARG1', ':ARG2', ':mod', ':op1', ':op2', ':op10', ':domain',
                ':location', ':time', ':poss', ':part', ':rel', ':x', ':x2-op9', ':x2-op10', ':x2-op100',
                # numeric suffixes written with leading zeros: :op010 is ten, :op01 and :op1 tie
                ':op01', ':op010', ':op20',
                # suffixes beyond ten digits, and roles that spell "-of" before their number (not inverted)
                ':op9999999999', ':op10000000000', ':x-of2', ':part-of10', ':km\u00b2', ':co\u2082']
        attr = [':polarity', ':quant', ':value', ':name', ':op1', ':op2', ':mode', ':wiki', ':li', ':y1z12', ':y1z3',
                ':li07', ':li7', ':li010']
        return edge, attr
    if kind == 'amr':
        edge = [':ARG0', ':ARG1', ':ARG2', ':ARG3', ':mod', ':domain', ':op1', ':op2', ':op10',
                ':location', ':time', ':poss', ':part', ':consist-of', ':prep-on-behalf-of',
                ':purpose', ':manner', ':topic', ':degree', ':cause', ':age', ':name']
        attr = [':polarity', ':quant', ':value', ':mode', ':wiki', ':li', ':op1', ':op2',
                ':day', ':month', ':year', ':mod', ':polite', ':domain']
        return edge, attr
    s = spec['spec']
    if ':prep-[a-z]+(-[a-z]+)?' in s['roles']:
        # only roles whose "-of" form is not itself covered by a pattern (inversion must stay unambiguous)
        edge = [':ARG0', ':ARG1', ':prep-out-of', ':prep-in-to', ':prep-because-of', ':wof', ':w-of']
        attr = [':name', ':quant', ':prep-as-if']
        return edge, attr
    if ':mod' in s['roles']:
        edge = [':ARG0', ':ARG1', ':ARG2', ':mod', ':domain', ':op1', ':op2', ':part-of', ':loc', ':snt2', ':q7']
        attr = [':name', ':quant', ':polarity', ':op1', ':mod']
        if s.get('concept_role'):
            attr = attr + [s['concept_role'], s['concept_role']]      # e.g. (a / alpha :isa kind): an attribute
    else:
        edge = [':Ra', ':Rb', ':Rc', ':x-of', ':rel', ':r\u00f4le', ':u', ':v', ':w-of', ':ww-of']
        attr = [':val', ':Ra', ':Rc']
    return edge, attr


def top_role(spec):
    if spec['kind'] == 'custom':
        return spec['spec'].get('top_role', ':TOP')
    return ':TOP'


def invalid_roles(spec):
    """roles NOT defined by the model, neither directly nor as single inversion"""
    kind = spec['kind']
    if kind in ('default', 'noop'):
        return []   # every role is acceptable?  no: the default model defines none
    if kind == 'amr':
        return [':foo', ':ARG', ':ARG10', ':opx', ':bar-of', ':mod-of-of', ':consist', ':Mod',
                ':prep-on-behalf', ':snt',
                # digits that are not 0-9 are not role indices
                ':op\uff13', ':ARG\u0967', ':op1\u0662', ':snt\u0663-of']
    s = spec['spec']
    if ':prep-[a-z]+(-[a-z]+)?' in s['roles']:
        return [':foo', ':ARG', ':prep-', ':prep-On', ':x-of', ':ARG0-of-of', ':vof']
    if ':mod' in s['roles']:
        return [':foo', ':ARG', ':part', ':location', ':bar-of', ':ARG0-of-of']
    return [':foo', ':Rd', ':x', ':R', ':Ra-of-of', ':TOP', ':ux', ':u-extra', ':uv']      # :TOP is not defined here (top role is :ROOT)
