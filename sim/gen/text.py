"""Metadata generation, an independent tree writer, and line framing."""

KEYS = ['id', 'snt', 'tok', 'lang', 'save-date', 'annotator', 'note', 'alignments', 'x',
        # keys end at the first ASCII blank: other white space belongs to the key
        'k\u00a0x', 'id\u3000z', 'f\x1fg']
WORDS = ['The', 'dog', 'barked', 'loudly', 'x', '42', 'naïve', '日本', 'a-b', 'end.']
SPECIALS = [';', '(', ')', '"', '#', '( unbalanced', 'a:b', ':', '~e.1', '/', '\\', "'", '\t',
            '# : :', ' ;; ', '\u00a0', ': :', '\u3000']
# characters str.splitlines() treats as line boundaries but a file/list does not
EXOTIC = ['\u2028', '\u2029', '\u0085', '\x0b', '\x0c', '\x1c', '\x1d', '\x1e']


def gen_metadata(rng, exotic=0.0, max_items=3, p_any=0.6):
    if not rng.chance(p_any):
        return []
    n = 1 + rng.randrange(max_items)
    keys = rng.sample(KEYS, n)
    items = []
    for k in keys:
        if rng.chance(0.15):
            items.append([k, ''])
            continue
        words = [rng.pick(WORDS) for _ in range(1 + rng.randrange(4))]
        if rng.chance(0.35):
            words.insert(rng.randrange(len(words) + 1), rng.pick(SPECIALS))
        v = ' '.join(words).strip()
        v = v.replace('::', ': :')
        if not v or v != v.strip():
            v = 'v'
        if rng.chance(exotic) and len(v) >= 2:
            i = 1 + rng.randrange(len(v) - 1)
            v = v[:i] + rng.pick(EXOTIC) + v[i:]
        items.append([k, v])
    return items


def fmt_node(node, style, depth=0):
    """Independent writer: style = {'nl': bool, 'indent': int, 'pad': str}"""
    var, branches = node
    if var is None:
        return '()'
    parts = []
    for role, tgt in branches:
        if isinstance(tgt, list):
            ts = fmt_node(tgt, style, depth + 1)
        else:
            ts = tgt
        if role == '/':
            parts.append('/' + ('' if ts is None else ' ' + ts))
        else:
            parts.append(role + ('' if ts is None else ' ' + ts))
    if not parts:
        return '(' + var + ')'
    head = '(' + var
    if style.get('nl'):
        # 'inner_blank': blank lines inside a graph are plain whitespace
        sep = ('\n\n' if style.get('inner_blank') and depth % 2 == 0 else '\n') + \
            ' ' * (style.get('indent', 3) * (depth + 1))
    else:
        sep = style.get('pad', ' ')
    first = ' ' + parts[0] if parts[0].startswith('/') else sep + parts[0]
    return head + first + ''.join(sep + p for p in parts[1:]) + ')'


def fmt_graph(tree, meta, style):
    lines = []
    if style.get('meta_one_line') and len(meta) > 1:
        # several keys on one comment line are read right to left; write them reversed
        lines.append('# ' + ' '.join('::' + k + (' ' + v if v else '') for k, v in reversed(meta)))
    else:
        for k, v in meta:
            lines.append('# ::' + k + (' ' + v if v else ''))
    if lines and style.get('meta_gap'):
        lines.append('')          # a blank line between the comments and their graph
    lines.append(fmt_node(tree, style))
    return '\n'.join(lines)


SEPARATORS = {'blank': '\n\n', 'newline': '\n', 'space': ' ', 'blank3': '\n\n\n', 'tab': '\t'}
NEWLINES = {'LF': '\n', 'CRLF': '\r\n', 'CR': '\r'}


def build_text(graphs, style):
    """graphs: [{'tree': node, 'meta': [[k, v], ...]}]; returns text with LF only."""
    sep = SEPARATORS[style.get('sep', 'blank')]
    parts = []
    for g in graphs:
        parts.append(fmt_graph(g['tree'], g.get('meta', []), style))
    out = ''
    for i, p in enumerate(parts):
        if i:
            # a comment may directly follow the previous graph on the same line
            out += sep
        out += p
    if style.get('leading'):
        out = style['leading'] + out
    if style.get('final_newline', True) and out:
        out += '\n'
    if style.get('trailing'):
        out += style['trailing']
    return out


def apply_newlines(text_lf, nl, mix_rng=None):
    """Replace LF by the chosen terminator (or a seeded mix)."""
    if nl == 'mixed':
        out = []
        for ch in text_lf:
            if ch == '\n':
                out.append(mix_rng.pick(['\n', '\r\n', '\r']))
            else:
                out.append(ch)
        return ''.join(out)
    return text_lf.replace('\n', NEWLINES[nl])


def split_lines(text, keepends):
    """Split at LF, CRLF, CR only (the documented line terminators)."""
    lines = []
    cur = []
    i = 0
    n = len(text)
    while i < n:
        ch = text[i]
        if ch == '\r':
            if i + 1 < n and text[i + 1] == '\n':
                term = '\r\n'
                i += 1
            else:
                term = '\r'
            lines.append(''.join(cur) + (term if keepends else ''))
            cur = []
        elif ch == '\n':
            lines.append(''.join(cur) + ('\n' if keepends else ''))
            cur = []
        else:
            cur.append(ch)
        i += 1
    if cur:
        lines.append(''.join(cur))
    return lines
