"""One integer decides everything: named, independent PRNG sub-streams.

Every random choice of the simulator is drawn from an ``Rng`` derived from
``VERIF_SEED`` through sha256 of a path of names, so adding draws to one
stream never shifts another and nothing depends on PYTHONHASHSEED.
"""

import hashlib
import random


def derive(*parts) -> int:
    h = hashlib.sha256('\x1f'.join(str(p) for p in parts).encode('utf-8'))
    return int.from_bytes(h.digest()[:8], 'big')


class Rng(random.Random):
    def __init__(self, seed: int):
        self._seed_int = int(seed)
        super().__init__(self._seed_int)

    @property
    def seed_int(self) -> int:
        return self._seed_int

    def sub(self, *names) -> 'Rng':
        return Rng(derive(self._seed_int, *names))

    # convenience -----------------------------------------------------
    def chance(self, p: float) -> bool:
        return self.random() < p

    def pick(self, seq):
        return seq[self.randrange(len(seq))]

    def weighted(self, pairs):
        """pairs: [(item, weight), ...] (ordered list, never a dict/set)."""
        total = sum(w for _, w in pairs)
        x = self.random() * total
        acc = 0.0
        for item, w in pairs:
            acc += w
            if x < acc:
                return item
        return pairs[-1][0]


def run_seed(verif_seed: int, prop: str, tier: str, idx: int) -> int:
    return derive(verif_seed, prop, tier, idx)
