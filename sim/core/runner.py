"""Batch runner: fresh-interpreter workers, hash-seed replicas, merge, minimise,
replay verification, evidence, exit codes.

Exit codes: 0 held (maybe with KNOWN-FINDING lines), 1 VIOLATION, 2 harness failure.
"""

import collections
import importlib
import json
import os
import shutil
import subprocess
import sys
import tempfile
import time
import traceback

from . import digest, env, known, minimise, stall
from .result import HarnessError, RunResult, Violation
from .rng import Rng, run_seed

DEFAULT_SEED = 20261001
MAIN = os.path.join(env.VERIF_DIR, 'sim', 'main.py')
MAX_STALLS_PER_WORKER = 3
MAX_CONFIRMATIONS = 3      # stalled runs re-executed under the step budget per batch (each costs up to a minute)


class JobList(list):
    """The jobs of one batch; grows when stalled runs are confirmed / ranges are continued."""

    def __init__(self, *a):
        super().__init__(*a)
        self.skipped = []        # (light, hashseed, start, stop, step) ranges given up after repeated stalls
        self.budget = STEP_BUDGET
PROPS = ['C05', 'C06', 'C09', 'C12', 'C15', 'C16', 'C17', 'C20']


def load_prop(pid):
    env.setup()
    if pid not in PROPS:
        raise HarnessError(f'unknown or unclaimed property {pid}')
    return importlib.import_module(f'sim.props.{pid.lower()}')


def verif_seed():
    s = os.environ.get('VERIF_SEED', '')
    try:
        return int(s)
    except ValueError:
        return DEFAULT_SEED


# --------------------------------------------------------------------------
# one run

def plan_run(prop, seed, tier, idx):
    rng = Rng(run_seed(seed, prop.ID, tier, idx))
    trace = prop.plan(rng, idx, tier)
    trace.setdefault('property', prop.ID)
    trace['seed'] = seed
    trace['tier'] = tier
    trace['run'] = idx
    return trace


# logical-time budget (penman line events of the main thread) used to confirm a suspected hang; >= 100 x the
# largest run of any property on the unchanged tree (measured by tools/stepmax.py, DESIGN section 12)
STEP_BUDGET = 60_000_000
# wall-clock seconds after which a single run is *suspected* to hang (decides nothing, see core/stall.py)
STALL_S = 90


def execute(prop, trace):
    """Execute; any exception escaping the property module is a harness error.  A trace that carries a
    ``step_budget`` is executed under the logical clock: not returning within the budget is the violation
    ``termination:no-return-within-step-budget`` (bounded liveness, implied by every "returns ..." clause)."""
    # the interpreter-wide PRNG belongs to the simulator too: penman draws from it only through
    # penman.model.random (owned separately, seam S8), but a run must stay a pure function of its trace even
    # if the code under test starts drawing from `random` somewhere else
    import random as _random
    from .rng import derive
    _random.seed(derive(trace.get('seed', 0), 'global-prng', trace.get('run', 0)))
    try:
        return _execute(prop, trace)
    finally:
        from ..seams import simio
        simio.cleanup_all()          # scratch directories of the simulated file systems of this run


def _execute(prop, trace):
    budget = trace.get('step_budget')
    if not budget:
        res = prop.execute(trace)
        if res.trace is None:
            res.trace = trace
        return res
    sb = stall.StepBudget(budget)
    try:
        with sb:
            res = prop.execute(trace)
    except stall.BudgetExceeded:
        res = RunResult()
        res.violate('termination', 'no-return-within-step-budget', budget=budget,
                    note='the run was still executing penman code after this many line events of the main thread; '
                         'the largest run of this property on the unchanged tree needs less than 1 % of it')
        res.trace = trace
        return res
    if res.trace is None:
        res.trace = trace
    res.trace.setdefault('step_budget', budget)
    res.stats['step.main_thread_line_events_under_budget'] = sb.steps
    return res


# --------------------------------------------------------------------------
# worker (fresh interpreter)

def worker_main(a):
    import faulthandler
    faulthandler.enable()
    faulthandler.dump_traceback_later(a.timeout, exit=True)
    prop = load_prop(a.prop)
    kn = known.load()
    out = {
        'runs': [], 'stats': collections.Counter(), 'cover': set(),
        'viol': {}, 'viol_counts': collections.Counter(), 'samples': [],
        'errors': [], 'aborted': collections.Counter(), 'hashseed': os.environ.get('PYTHONHASHSEED'),
    }
    t0 = time.time()
    for idx in range(a.start, a.stop, a.step):
        try:
            trace = plan_run(prop, a.seed, a.tier, idx)
            dec = digest.sha(trace)
            if a.budget:
                trace['step_budget'] = a.budget
            try:
                if a.stall and not a.budget:
                    stall.arm(a.stall)
                res = execute(prop, trace)
            finally:
                stall.disarm()
        except stall.Stalled:
            # suspected hang: this interpreter may be left in any state (parked threads, patched globals),
            # so it stops here; the parent confirms under the logical clock and continues the range elsewhere
            stall.disarm()
            out['stalled'] = idx
            out['resume_from'] = idx + a.step
            break
        except Exception:
            out['errors'].append({'run': idx, 'tb': traceback.format_exc()})
            if len(out['errors']) > 5:
                break
            continue
        out['runs'].append([idx, dec, res.event_digest(), len(res.violations)])
        if res.violations:
            out.setdefault('viol_runs', {})[str(idx)] = sorted({v.sig for v in res.violations})
        if a.light:
            continue
        out['stats'].update(res.stats)
        out['stats']['runs'] += 1
        if res.aborted:
            out['aborted'][res.aborted] += 1
        out['cover'].update(digest.sha(c)[:10] for c in res.cover)
        if len(out['samples']) < 1:
            out['samples'].append(res.trace)
        seen = set()
        for v in res.violations:
            kid = known.match(prop, kn, res.trace, v)
            key = f'{v.sig}|{kid or ""}'
            if key in seen:
                continue
            seen.add(key)
            out['viol_counts'][key] += 1
            if key not in out['viol']:
                out['viol'][key] = {'run': idx, 'trace': res.trace,
                                    'violation': v.to_json(), 'known': kid}
    out['wall'] = time.time() - t0
    out['stats'] = dict(out['stats'])
    out['cover'] = sorted(out['cover'])
    out['viol_counts'] = dict(out['viol_counts'])
    out['aborted'] = dict(out['aborted'])
    tmp = a.out + '.part'
    with open(tmp, 'w') as fh:
        json.dump(out, fh)
    os.replace(tmp, a.out)
    faulthandler.cancel_dump_traceback_later()
    return 0


# --------------------------------------------------------------------------
# parent

class Job:
    def __init__(self, name, hashseed, start, stop, step, light, budget=0, stall_s=0, stalls=0):
        self.name, self.hashseed = name, hashseed
        self.start, self.stop, self.step, self.light = start, stop, step, light
        self.budget, self.stall_s, self.stalls = budget, stall_s, stalls
        self.proc = None
        self.out = None
        self.log = None
        self.result = None


def _spawn(job, pid, tier, seed, scratch, timeout):
    job.out = os.path.join(scratch, job.name + '.json')
    job.log = os.path.join(scratch, job.name + '.log')
    e = dict(os.environ)
    e['PYTHONHASHSEED'] = str(job.hashseed)
    e['PYTHONDONTWRITEBYTECODE'] = '1'
    e['PYTHONIOENCODING'] = 'utf-8'
    cmd = [sys.executable, '-B', MAIN, '_worker', '--prop', pid, '--tier', tier,
           '--seed', str(seed), '--start', str(job.start), '--stop', str(job.stop),
           '--step', str(job.step), '--out', job.out, '--timeout', str(timeout)]
    if job.light:
        cmd.append('--light')
    if job.budget:
        cmd += ['--budget', str(job.budget)]
    if job.stall_s:
        cmd += ['--stall', str(job.stall_s)]
    lf = open(job.log, 'w')
    job.proc = subprocess.Popen(cmd, stdout=lf, stderr=subprocess.STDOUT, env=e,
                                cwd=env.VERIF_DIR)
    lf.close()


def _run_jobs(jobs, pid, tier, seed, scratch, slots, timeout, deadline):
    pending = list(jobs)
    running = []
    failures = []
    while pending or running:
        while pending and len(running) < slots:
            j = pending.pop(0)
            _spawn(j, pid, tier, seed, scratch, timeout)
            running.append(j)
        time.sleep(0.05)
        for j in list(running):
            rc = j.proc.poll()
            if rc is None:
                continue
            running.remove(j)
            if rc == 0 and os.path.exists(j.out):
                with open(j.out) as fh:
                    j.result = json.load(fh)
                if j.result.get('stalled') is not None:
                    # a run went on for far longer than any run of this property takes: confirm under the
                    # logical clock (fresh interpreter, step budget) and continue the range in a new worker
                    idx = j.result['stalled']
                    if sum(1 for x in jobs if x.budget) < MAX_CONFIRMATIONS:
                        jobs.append(Job(f'{j.name}-c{idx}', j.hashseed, idx, idx + 1, 1, j.light, budget=jobs.budget))
                        pending.insert(0, jobs[-1])
                    else:
                        jobs.skipped.append((j.light, j.hashseed, idx, idx + 1, 1))
                    nxt = j.result['resume_from']
                    if nxt < j.stop:
                        if j.stalls + 1 >= MAX_STALLS_PER_WORKER:
                            jobs.skipped.append((j.light, j.hashseed, nxt, j.stop, j.step))
                        else:
                            jobs.append(Job(f'{j.name}-r{nxt}', j.hashseed, nxt, j.stop, j.step, j.light,
                                            stall_s=j.stall_s, stalls=j.stalls + 1))
                            pending.append(jobs[-1])
            else:
                with open(j.log) as fh:
                    tail = fh.read()[-4000:]
                failures.append(f'worker {j.name} exit={rc}\n{tail}')
        if time.time() > deadline:
            for j in running:
                j.proc.kill()
            failures.append(f'wall-clock cap exceeded; killed {len(running)} workers, '
                            f'{len(pending)} never started')
            break
    return failures


def check(pid, tier, runs=None, workers=None, quiet=False):
    t0 = time.time()
    prop = load_prop(pid)
    seed = verif_seed()
    cfg = dict(prop.TIERS[tier])
    if runs is not None:
        cfg['runs'] = runs
    nruns = cfg['runs']
    workers = workers or int(os.environ.get('VSIM_WORKERS', '0')) or min(16, os.cpu_count() or 1)
    workers = max(1, min(workers, nruns))
    hash_seeds = cfg.get('hash_seeds', [1, 4242])
    replica_runs = min(cfg.get('replica_runs', 0), nruns)
    timeout = cfg.get('timeout_s', 600)
    print(f'vsim: property={pid} tier={tier} VERIF_SEED={seed} runs={nruns} workers={workers} '
          f'repo={env.REPO} tree={env.tree_hash()}', flush=True)

    scratch = tempfile.mkdtemp(prefix=f'vsim-{pid}-')
    try:
        stall_s = float(os.environ.get('VSIM_STALL_S', 0) or cfg.get('stall_s', STALL_S))
        step_budget = int(cfg.get('step_budget', STEP_BUDGET))
        jobs = JobList(Job(f'p{w}', 0, w, nruns, workers, False, stall_s=stall_s) for w in range(workers))
        jobs.budget = step_budget
        if replica_runs:
            per = max(1, workers // max(1, len(hash_seeds)))
            for hs in hash_seeds:
                for k in range(per):
                    jobs.append(Job(f'h{hs}-{k}', hs, k, replica_runs, per, True, stall_s=stall_s))
        failures = _run_jobs(jobs, pid, tier, seed, scratch, workers, timeout,
                             t0 + timeout + 60)
    finally:
        shutil.rmtree(scratch, ignore_errors=True)

    if failures:
        for f in failures:
            print('HARNESS-FAILURE:', f)
        return 2

    # merge in run-index order -------------------------------------------
    primary = {}
    stats = collections.Counter()
    cover = set()
    aborted = collections.Counter()
    viol = {}
    viol_counts = collections.Counter()
    samples = []
    errors = []
    for j in jobs:
        r = j.result
        errors.extend(r['errors'])
        if j.light:
            continue
        for idx, dec, ev, nv in r['runs']:
            primary[idx] = (dec, ev, nv)
        stats.update(r['stats'])
        cover.update(r['cover'])
        aborted.update(r['aborted'])
        viol_counts.update(r['viol_counts'])
        for key, ex in r['viol'].items():
            if key not in viol or ex['run'] < viol[key]['run']:
                viol[key] = ex
        samples.extend(r['samples'])
    samples.sort(key=lambda t: t.get('run', 0))
    if errors:
        for e in errors[:3]:
            print(f"HARNESS-FAILURE: exception in run {e['run']}\n{e['tb']}")
        return 2
    nstalled = sum(1 for j in jobs if j.budget)
    skipped = sum(len(range(st, sp, sk)) for light, _, st, sp, sk in jobs.skipped if not light)
    if len(primary) + skipped != nruns:
        print(f'HARNESS-FAILURE: {len(primary)} of {nruns} runs reported ({skipped} given up after repeated stalls)')
        return 2
    if nstalled:
        print(f'NOTE: {nstalled} runs exceeded the wall-clock limit of {stall_s:.0f} s and were re-executed under the '
              f'step budget of {step_budget} line events'
              + (f'; {skipped} runs of the same workers were not executed' if skipped else ''))

    # determinism across hash seeds ------------------------------------------
    dec_mismatch, ev_mismatch, replicas = [], [], 0
    for j in jobs:
        if not j.light:
            continue
        for idx, dec, ev, nv in j.result['runs']:
            replicas += 1
            p = primary.get(idx)
            if p is None:
                continue
            if p[0] != dec:
                dec_mismatch.append((idx, j.hashseed))
            elif p[1] != ev:
                ev_mismatch.append((idx, j.hashseed, j.start, j.step))
    if dec_mismatch:
        print(f'HARNESS-FAILURE: decision log differs across hash seeds for runs {dec_mismatch[:5]}')
        return 2

    rc = 0
    kn = known.load()
    reported = []
    known_lines = []
    # divergence of results between two fresh interpreters: the violation itself for C17/C15,
    # once confirmed and classified (hash seed, or history of earlier calls in the process)
    if ev_mismatch:
        if getattr(prop, 'HASHSEED_IS_VIOLATION', False):
            idx, hs, rstart, rstep = ev_mismatch[0]
            kind, doc = classify_divergence(pid, tier, seed, idx, hs, workers, rstart, rstep)
            if kind is None:
                print(f'HARNESS-FAILURE: run {idx} gave different result digests in two worker interpreters but '
                      f'neither a hash-seed pair nor the two run histories reproduce the difference')
                return 2
            v = Violation('divergence', kind, {'run': idx, **doc})
            d = os.path.join(env.VERIF_DIR, 'replays')
            os.makedirs(d, exist_ok=True)
            path = os.path.join(d, f'{pid}-{seed}-{idx}-divergence.json')
            with open(path, 'w') as fh:
                json.dump({'property': pid, 'seed': seed, 'tier': tier, 'run': idx, 'signature': v.sig,
                           'divergence': doc, 'penman_tree': env.tree_hash()}, fh, indent=1)
            print(f'VIOLATION property={pid} replay={path}')
            if kind == 'result-depends-on-hash-seed':
                print(f'  oracle=divergence run={idx}: per-operation results differ between PYTHONHASHSEED '
                      f'{doc["hashseeds"][0]} and {doc["hashseeds"][1]}')
            elif kind == 'result-nondeterministic-under-identical-conditions':
                print(f'  oracle=divergence run={idx}: the same run history under the same hash seed gave different '
                      f'per-operation results in {doc["executions"]} fresh interpreters (results depend on something '
                      f'other than the arguments, e.g. object identities); replay re-executes it up to six times')
            else:
                print(f'  oracle=divergence run={idx}: per-operation results depend on which earlier runs were executed '
                      f'in the same process (state kept between calls): after {doc["histories"][0][:-1]} vs after '
                      f'{doc["histories"][1][:-1]}')
            print('  first differing event: ' + doc.get('first_difference', '')[:900])
            reported.append(v.sig)
            rc = 1
        else:
            print(f'NOTE: {len(ev_mismatch)} replica runs produced different result digests in another worker '
                  f'interpreter while every oracle of {pid} held in both executions '
                  f'(independence from hash seed and call history is C17\'s subject)')

    # violations ---------------------------------------------------------
    unknown = sorted((ex for ex in viol.values() if not ex['known']), key=lambda e: e['run'])
    for key, ex in sorted(viol.items()):
        if ex['known']:
            ent = known.entry(kn, ex['known'])
            known_lines.append(f"KNOWN-FINDING: property={pid} {ex['known']} {ent.get('what', '')} "
                               f"[{viol_counts[key]} runs, e.g. run {ex['run']}]")
    done_sigs = set()
    unreproducible = []
    for ex in unknown:
        v = Violation.from_json(ex['violation'])
        if v.sig in done_sigs or len(done_sigs) >= cfg.get('max_reports', 2):
            continue
        done_sigs.add(v.sig)
        start_trace = ex['trace']
        if v.oracle == 'termination':
            # shrink under 1 % of the budget (any run of the unchanged tree stays below that), report under the full one
            start_trace = dict(start_trace, step_budget=max(step_budget // 100, 200_000))
        small, v2, nexec = minimise.minimise(prop, start_trace, v, budget_s=cfg.get('shrink_s', 45),
                                              execute=lambda t: execute(prop, t), stall_s=stall_s)
        if v.oracle == 'termination':
            small = dict(small, step_budget=step_budget)
            v2 = Violation(v2.oracle, v2.cls, dict(v2.detail, budget=step_budget))
        kid = known.match(prop, kn, small, v2)
        if kid:
            ent = known.entry(kn, kid)
            known_lines.append(f"KNOWN-FINDING: property={pid} {kid} {ent.get('what', '')} "
                               f"[matched after minimisation, run {ex['run']}]")
            continue
        path = write_replay(pid, seed, ex['run'], small, v2, original_ops=ex['trace'])
        ok, msg = verify_replay(path, timeout=300 + step_budget // 400_000)
        if not ok and v.oracle == 'termination':
            # the shrunk history is only slow, not endless: report the original run
            path = write_replay(pid, seed, ex['run'], dict(ex['trace'], step_budget=step_budget), v2)
            ok, msg = verify_replay(path, timeout=300 + step_budget // 400_000)
        note = ''
        if not ok:
            ok, msg2 = verify_replay(path, hashseed=0)
            if ok:
                note = ('  note: reproduces under PYTHONHASHSEED=0 but not under 977: the behaviour depends on '
                        'the hash seed (replay with VSIM_HASHSEED=0)')
        if not ok:
            # the violation may depend on process-global state left behind by earlier runs of the
            # same worker (a history of calls in one process): replay that history, minimised
            seq = sequence_replay(prop, pid, tier, seed, ex['run'], workers, v.sig)
            if seq is not None:
                path = seq
                ok = True
                note = ('  note: the run alone does not fail in a fresh interpreter; it fails after the listed earlier '
                        'runs in the same process (state kept between calls) - the replay file holds that run sequence')
            else:
                wr = worker_replay(pid, tier, seed, ex['run'], workers, v.sig, timeout)
                if wr is None and getattr(prop, 'HASHSEED_IS_VIOLATION', False):
                    hist = list(range(ex['run'] % workers, ex['run'] + 1, workers))
                    nd = nondeterminism_probe(pid, tier, seed, hist)
                    if nd is not None:
                        d_ = os.path.join(env.VERIF_DIR, 'replays')
                        wr = os.path.join(d_, f'{pid}-{seed}-{ex["run"]}-divergence.json')
                        with open(wr, 'w') as fh:
                            json.dump({'property': pid, 'seed': seed, 'tier': tier, 'run': ex['run'],
                                       'signature': 'divergence:result-nondeterministic-under-identical-conditions',
                                       'divergence': nd, 'observed': v2.to_json(), 'penman_tree': env.tree_hash()},
                                      fh, indent=1, default=str)
                if wr is not None:
                    path = wr
                    ok = True
                    note = ('  note: reproduces only when the original worker process is re-executed from its first run, '
                            'possibly at another run of that range (the behaviour depends on process-level state the '
                            'simulator cannot pin, such as object identities) - the replay file names that worker invocation')
        if not ok:
            unreproducible.append(f'minimised trace {path} (oracle={v2.oracle} class={v2.cls}, run {ex["run"]}) did not '
                                  f'reproduce in a fresh interpreter: {msg[:300]}')
            continue
        print(f'VIOLATION property={pid} replay={path}')
        print(f'  oracle={v2.oracle} class={v2.cls} run={ex["run"]} shrink_execs={nexec}')
        if note:
            print(note)
        print('  ' + digest.dumps(v2.detail)[:1500])
        reported.append(v2.sig)
        rc = 1
    if unreproducible:
        for u in unreproducible:
            print(('NOTE: ' if rc == 1 else 'HARNESS-FAILURE: ') + u)
        if rc != 1:
            # nothing was confirmed: an alarm that cannot be replayed is a defect of the harness
            return 2
    # fixed findings must stay fixed: replay their minimised traces on this tree
    nreg = 0
    import glob
    for rpath in sorted(glob.glob(os.path.join(env.VERIF_DIR, 'regress', f'{pid}-*.json'))):
        with open(rpath) as fh:
            doc = json.load(fh)
        nreg += 1
        # under the logical clock: a fixture that no longer returns must not hang the parent
        rres = execute(prop, dict(doc['trace'], step_budget=step_budget))
        for v in rres.violations:
            if known.match(prop, kn, rres.trace, v) or v.sig in reported:
                continue
            path = write_replay(pid, seed, f"regress-{doc.get('finding')}", rres.trace, v)
            print(f'VIOLATION property={pid} replay={path}')
            print(f"  fixed finding {doc.get('finding')} ({doc.get('fixed_by')}) is back: "
                  f"oracle={v.oracle} class={v.cls}")
            print('  ' + digest.dumps(v.detail)[:1500])
            reported.append(v.sig)
            rc = 1
            break
    for line in sorted(set(known_lines)):
        print(line)
    if skipped and not any(r.startswith('termination:') for r in reported):
        print(f'HARNESS-FAILURE: {skipped} runs were given up after repeated wall-clock stalls although no run exceeded '
              f'the step budget (machine overloaded?)')
        return 2
    nruns = len(primary)

    nab = sum(aborted.values())
    if nab > max(2, 0.01 * nruns) and rc != 1:
        print(f'HARNESS-FAILURE: {nab} of {nruns} runs aborted at a cap: {dict(aborted)}')
        return 2

    wall = time.time() - t0
    write_evidence(prop, tier, seed, nruns, stats, cover, samples, wall, workers,
                   hash_seeds if replica_runs else [], replicas, ev_mismatch, aborted,
                   viol_counts, reported, known_lines,
                   liveness={'wall_clock_suspicion_s': stall_s, 'step_budget_line_events': step_budget,
                             'runs_suspected': nstalled + sum(len(range(st, sp, sk)) for _, _, st, sp, sk in jobs.skipped),
                             'runs_re_executed_under_step_budget': nstalled, 'runs_not_executed': skipped,
                             'rule': 'a run that exceeds the wall-clock suspicion time is re-executed in a fresh '
                                     'interpreter under a budget of penman line events of the main thread; only exceeding '
                                     'that logical budget is reported (termination:no-return-within-step-budget)'})
    print(f'RESULT property={pid} tier={tier} runs={nruns} replicas={replicas} '
          f'distinct={len(cover)} violations={len(reported)} known={len(set(known_lines))} '
          f'wall={wall:.1f}s runs_per_hour={int(nruns / max(wall, 1e-6) * 3600)}')
    return rc


# --------------------------------------------------------------------------
# replay files

def write_replay(pid, seed, run, trace, v, original_ops=None, note=None):
    d = os.path.join(env.VERIF_DIR, 'replays')
    os.makedirs(d, exist_ok=True)
    path = os.path.join(d, f'{pid}-{seed}-{run}.json')
    doc = {'property': pid, 'seed': seed, 'run': run, 'signature': v.sig,
           'violation': v.to_json(), 'penman_tree': env.tree_hash(), 'trace': trace}
    if note:
        doc['note'] = note
    with open(path, 'w') as fh:
        json.dump(doc, fh, indent=1, sort_keys=True, default=str)
    return path


def verify_replay(path, hashseed=977, timeout=300):
    e = dict(os.environ)
    e['PYTHONHASHSEED'] = str(hashseed)
    e['PYTHONDONTWRITEBYTECODE'] = '1'
    e['PYTHONIOENCODING'] = 'utf-8'
    try:
        p = subprocess.run([sys.executable, '-B', MAIN, 'replay', path], env=e,
                           capture_output=True, text=True, timeout=timeout, cwd=env.VERIF_DIR)
    except subprocess.TimeoutExpired:
        return False, 'timeout'
    if p.returncode == 1 and 'VIOLATION' in p.stdout:
        return True, ''
    return False, f'exit={p.returncode} {p.stdout[-500:]} {p.stderr[-500:]}'


def run_sequence(prop, seed, tier, runs, want):
    """Execute planned runs one after the other in this process; the verdict is the last run's."""
    last = None
    for idx in runs:
        last = execute(prop, plan_run(prop, seed, tier, idx))
    return [v for v in (last.violations if last else []) if want is None or v.sig == want]


def _seq_in_fresh(pid, tier, seed, runs, sig, hashseed=0, timeout=300):
    e = dict(os.environ)
    e['PYTHONHASHSEED'] = str(hashseed)
    e['PYTHONDONTWRITEBYTECODE'] = '1'
    e['PYTHONIOENCODING'] = 'utf-8'
    try:
        p = subprocess.run([sys.executable, '-B', MAIN, '_seq', '--prop', pid, '--tier', tier, '--seed', str(seed),
                            '--runs', ','.join(map(str, runs)), '--sig', sig], env=e, capture_output=True, text=True,
                           timeout=timeout, cwd=env.VERIF_DIR)
    except subprocess.TimeoutExpired:
        return False
    return p.returncode == 1


def sequence_replay(prop, pid, tier, seed, run, workers, sig, budget_s=120):
    history = list(range(run % workers, run + 1, workers))
    if len(history) < 2 or not _seq_in_fresh(pid, tier, seed, history, sig):
        return None
    t_end = time.time() + budget_s
    prefix = history[:-1]
    improved = True
    while improved and time.time() < t_end:
        improved = False
        for keep in minimise.ddmin_list(prefix):
            if time.time() >= t_end:
                break
            if _seq_in_fresh(pid, tier, seed, keep + [run], sig):
                prefix = keep
                improved = True
                break
    d = os.path.join(env.VERIF_DIR, 'replays')
    os.makedirs(d, exist_ok=True)
    path = os.path.join(d, f'{pid}-{seed}-{run}-sequence.json')
    with open(path, 'w') as fh:
        json.dump({'property': pid, 'seed': seed, 'tier': tier, 'signature': sig, 'sequence': prefix + [run],
                   'penman_tree': env.tree_hash(),
                   'traces': [plan_run(prop, seed, tier, i) for i in prefix + [run]]}, fh, indent=1, default=str)
    return path


def _worker_once(pid, tier, seed, start, stop, step, timeout):
    scratch = tempfile.mkdtemp(prefix='vsim-wr-')
    try:
        j = Job('wr', 0, start, stop, step, False)
        _spawn(j, pid, tier, seed, scratch, timeout)
        try:
            j.proc.wait(timeout=timeout + 60)
        except subprocess.TimeoutExpired:
            j.proc.kill()
            return None
        if j.proc.returncode != 0 or not os.path.exists(j.out):
            return None
        with open(j.out) as fh:
            return json.load(fh)
    finally:
        shutil.rmtree(scratch, ignore_errors=True)


def _worker_hits(pid, tier, seed, start, stop, step, timeout, sig, attempts=3):
    """Re-execute a worker's run range up to *attempts* times; runs that violated with *sig*."""
    for k in range(attempts):
        r = _worker_once(pid, tier, seed, start, stop, step, timeout)
        hits = sorted(int(i) for i, sigs in ((r or {}).get('viol_runs') or {}).items() if sig in sigs)
        if hits:
            return hits, k + 1
    return [], attempts


def worker_replay(pid, tier, seed, run, workers, sig, timeout):
    """Last resort for behaviour that depends on process-level state the simulator cannot pin (object
    identities, allocator reuse): the worker's whole run range is re-executed; the violation counts as
    reproduced if the same oracle fires again somewhere in that range."""
    start, step = run % workers, workers
    hits, tries = _worker_hits(pid, tier, seed, start, run + 1, step, timeout, sig)
    if not hits:
        return None
    d = os.path.join(env.VERIF_DIR, 'replays')
    os.makedirs(d, exist_ok=True)
    path = os.path.join(d, f'{pid}-{seed}-{run}-worker.json')
    with open(path, 'w') as fh:
        json.dump({'property': pid, 'seed': seed, 'tier': tier, 'signature': sig, 'run': run,
                   'worker': {'start': start, 'stop': run + 1, 'step': step, 'timeout': timeout},
                   'reproduced_in_runs': hits, 'attempts_needed': tries,
                   'penman_tree': env.tree_hash()}, fh, indent=1)
    return path


def seq_main(a):
    prop = load_prop(a.prop)
    runs = [int(x) for x in a.runs.split(',') if x]
    hit = run_sequence(prop, a.seed, a.tier, runs, a.sig or None)
    for v in hit:
        print(f'  violation oracle={v.oracle} class={v.cls}')
        print('    ' + digest.dumps(v.detail)[:3000])
    if hit:
        print(f'VIOLATION property={a.prop} replay=(sequence {runs})')
        return 1
    print('sequence: the violation did not occur')
    return 0


def replay(path):
    with open(path) as fh:
        doc = json.load(fh)
    pid = doc['property']
    prop = load_prop(pid)
    if 'divergence' in doc:
        return replay_divergence(doc)
    if 'worker' in doc:
        w = doc['worker']
        print(f'vsim replay: property={pid} re-executing worker runs {w["start"]}..{w["stop"] - 1} step {w["step"]}')
        hits, tries = _worker_hits(pid, doc['tier'], doc['seed'], w['start'], w['stop'], w['step'],
                                   w.get('timeout', 1200), doc.get('signature'))
        if hits:
            print(f'  violation {doc.get("signature")} in runs {hits} (attempt {tries})')
            print(f'VIOLATION property={pid} replay={path}')
            return 1
        print('replay: the recorded violation did not occur on this tree')
        return 0
    if 'sequence' in doc:
        print(f'vsim replay: property={pid} run sequence {doc["sequence"]} (one process, in order)')
        hit = []
        last = None
        for t in doc['traces']:
            last = execute(prop, t)
        hit = [v for v in last.violations if v.sig == doc.get('signature')]
        for v in hit:
            print(f'  violation oracle={v.oracle} class={v.cls}')
            print('    ' + digest.dumps(v.detail)[:3000])
        if hit:
            print(f'VIOLATION property={pid} replay={path}')
            return 1
        print('replay: the recorded violation did not occur on this tree')
        return 0
    trace = doc['trace']
    want = doc.get('signature')
    print(f'vsim replay: property={pid} seed={doc.get("seed")} run={doc.get("run")} '
          f'recorded_tree={doc.get("penman_tree")} current_tree={env.tree_hash()} '
          f'PYTHONHASHSEED={os.environ.get("PYTHONHASHSEED")}')
    if 'hashseed_pair' in trace:
        return replay_hashseed(prop, doc)
    res = execute(prop, trace)
    hit = [v for v in res.violations if want is None or v.sig == want]
    for v in res.violations:
        print(f'  violation oracle={v.oracle} class={v.cls}')
        print('    ' + digest.dumps(v.detail)[:3000])
    if hit:
        print(f'VIOLATION property={pid} replay={path}')
        return 1
    print('replay: the recorded violation did not occur on this tree')
    return 0


def _events_in_fresh(pid, tier, seed, runs, hashseed):
    e = dict(os.environ)
    e['PYTHONHASHSEED'] = str(hashseed)
    e['PYTHONDONTWRITEBYTECODE'] = '1'
    e['PYTHONIOENCODING'] = 'utf-8'
    p = subprocess.run([sys.executable, '-B', MAIN, '_events', '--prop', pid, '--tier', tier, '--seed', str(seed),
                        '--runs', ','.join(map(str, runs))], env=e, capture_output=True, text=True,
                       cwd=env.VERIF_DIR, timeout=900)
    return p.stdout if p.returncode == 0 else None


def _first_diff(a, b):
    la, lb = (a or '').splitlines(), (b or '').splitlines()
    for i, (x, y) in enumerate(zip(la, lb)):
        if x != y:
            return f'#{i}: {x[:400]}  |vs|  {y[:400]}'
    return f'lengths {len(la)} vs {len(lb)}'


def classify_divergence(pid, tier, seed, idx, hs, workers, rstart, rstep):
    a = _events_in_fresh(pid, tier, seed, [idx], 0)
    b = _events_in_fresh(pid, tier, seed, [idx], hs)
    if a is not None and b is not None and a != b:
        return 'result-depends-on-hash-seed', {'hashseeds': [0, hs], 'first_difference': _first_diff(a, b)}
    hp = list(range(idx % workers, idx + 1, workers))
    hr = list(range(rstart, idx + 1, rstep))
    pa = _events_in_fresh(pid, tier, seed, hp, 0)
    pb = _events_in_fresh(pid, tier, seed, hr, 0)
    if pa is not None and pb is not None and pa != pb:
        return 'result-depends-on-call-history', {'histories': [hp, hr], 'first_difference': _first_diff(pa, pb)}
    pb2 = _events_in_fresh(pid, tier, seed, hr, hs)
    if pa is not None and pb2 is not None and pa != pb2:
        return 'result-depends-on-call-history', {'histories': [hp, hr], 'hashseeds': [0, hs],
                                                  'first_difference': _first_diff(pa, pb2)}
    nd = nondeterminism_probe(pid, tier, seed, hp, first=pa)
    if nd is None:
        nd = worker_nondeterminism_probe(pid, tier, seed, idx % workers, idx + 1, workers, 1200)
    if nd is not None:
        nd.setdefault('executions', 2)
        nd.setdefault('first_difference', f"run {nd.get('run_with_different_results')} of the re-executed worker")
        return 'result-nondeterministic-under-identical-conditions', nd
    return None, {}


def worker_nondeterminism_probe(pid, tier, seed, start, stop, step, timeout, repeats=4):
    """Re-execute one worker's run range several times under identical conditions (same command, same
    hash seed) and compare the per-run result digests between executions."""
    seen = {}
    for k in range(repeats):
        scratch = tempfile.mkdtemp(prefix='vsim-nd-')
        try:
            j = Job('nd', 0, start, stop, step, True)
            _spawn(j, pid, tier, seed, scratch, timeout)
            try:
                j.proc.wait(timeout=timeout + 60)
            except subprocess.TimeoutExpired:
                j.proc.kill()
                return None
            if j.proc.returncode != 0 or not os.path.exists(j.out):
                return None
            with open(j.out) as fh:
                r = json.load(fh)
        finally:
            shutil.rmtree(scratch, ignore_errors=True)
        for idx, dec, ev, nv in r['runs']:
            if idx in seen and seen[idx] != ev:
                return {'worker': {'start': start, 'stop': stop, 'step': step, 'timeout': timeout},
                        'run_with_different_results': idx, 'executions': k + 1}
            seen.setdefault(idx, ev)
    return None


def nondeterminism_probe(pid, tier, seed, history, first=None, repeats=3):
    """The same run history, the same hash seed, fresh interpreters: do the results differ between
    executions?  The plan of every run is a pure function of (seed, index) - the self-test and the
    decision digests establish that - so a difference here is nondeterminism of the code under test."""
    outs = [first] if first is not None else []
    while len(outs) < repeats + (1 if first is not None else 0):
        o = _events_in_fresh(pid, tier, seed, history, 0)
        if o is None:
            return None
        outs.append(o)
        if o != outs[0]:
            return {'history': history, 'hashseed': 0, 'executions': len(outs),
                    'first_difference': _first_diff(outs[0], o)}
    return None


def replay_divergence(doc):
    pid, tier, seed, idx = doc['property'], doc['tier'], doc['seed'], doc['run']
    d = doc['divergence']
    if 'worker' in d:
        w = d['worker']
        nd = worker_nondeterminism_probe(pid, tier, seed, w['start'], w['stop'], w['step'], w.get('timeout', 1200),
                                         repeats=6)
        if nd is not None:
            print(f"  run {nd['run_with_different_results']} gave different results in execution {nd['executions']}")
            print(f'VIOLATION property={pid} replay=(nondeterminism of worker {w["start"]}..{w["stop"] - 1} step {w["step"]})')
            return 1
        print('replay: six executions of the worker gave identical results on this tree')
        return 0
    if 'history' in d:
        nd = nondeterminism_probe(pid, tier, seed, d['history'], repeats=5)
        if nd is not None:
            print('  first differing event: ' + nd['first_difference'])
            print(f'VIOLATION property={pid} replay=(nondeterminism of history ending in run {idx})')
            return 1
        print('replay: six executions of the history gave identical results on this tree')
        return 0
    if 'histories' in d:
        hs = d.get('hashseeds', [0, 0])
        a = _events_in_fresh(pid, tier, seed, d['histories'][0], hs[0])
        b = _events_in_fresh(pid, tier, seed, d['histories'][1], hs[1])
    else:
        a = _events_in_fresh(pid, tier, seed, [idx], d['hashseeds'][0])
        b = _events_in_fresh(pid, tier, seed, [idx], d['hashseeds'][1])
    if a != b:
        print('  first differing event: ' + _first_diff(a, b))
        print(f'VIOLATION property={pid} replay=(divergence of run {idx})')
        return 1
    print('replay: results identical on this tree')
    return 0


def replay_hashseed(prop, doc):
    trace = dict(doc['trace'])
    a, b = trace.pop('hashseed_pair')
    outs = []
    for hs in (a, b):
        e = dict(os.environ)
        e['PYTHONHASHSEED'] = str(hs)
        p = subprocess.run([sys.executable, '-B', MAIN, '_events', '--prop', prop.ID,
                            '--tier', trace['tier'], '--seed', str(trace['seed']),
                            '--run', str(trace['run'])], env=e, capture_output=True,
                           text=True, cwd=env.VERIF_DIR, timeout=600)
        outs.append(p.stdout)
    if outs[0] != outs[1]:
        la, lb = outs[0].splitlines(), outs[1].splitlines()
        for i, (x, y) in enumerate(zip(la, lb)):
            if x != y:
                print(f'  first differing event #{i}:\n    hashseed {a}: {x[:600]}\n    hashseed {b}: {y[:600]}')
                break
        print(f'VIOLATION property={prop.ID} replay=(hash-seed pair)')
        return 1
    print('replay: results identical under both hash seeds on this tree')
    return 0


def events_main(a):
    prop = load_prop(a.prop)
    runs = [int(x) for x in a.runs.split(',')] if getattr(a, 'runs', None) else [a.run]
    res = None
    for idx in runs:
        res = execute(prop, plan_run(prop, a.seed, a.tier, idx))
    for e in res.events:
        print(e)
    return 0


# --------------------------------------------------------------------------
# evidence

def write_evidence(prop, tier, seed, nruns, stats, cover, samples, wall, workers,
                   hash_seeds, replicas, ev_mismatch, aborted, viol_counts, reported, known_lines, liveness=None):
    faults = {k[6:]: v for k, v in sorted(stats.items()) if k.startswith('fault.')}
    probes = {k[6:]: v for k, v in sorted(stats.items()) if k.startswith('probe.')}
    steps = {k[5:]: v for k, v in sorted(stats.items()) if k.startswith('step.')}
    expected = list(getattr(prop, 'PROBES', []))
    unreached = [p for p in expected if not probes.get(p)]
    assumptions = list(prop.ASSUMPTIONS)
    if unreached and tier == 'thorough':
        assumptions.append('probes never reached in this run: ' + ', '.join(unreached))
    doc = {
        'property_id': prop.ID,
        'tier': tier,
        'seed': seed,
        'level': 'exploration',
        'coverage': {
            'evaluations': nruns,
            'distinct_nontrivial': len(cover),
            'rule': prop.RULE,
            'samples': samples[:3],
            'exhaustive': False,
            'runs_per_hour': int(nruns / max(wall, 1e-6) * 3600),
            'seeds_per_hour': int(nruns / max(wall, 1e-6) * 3600),
            'simulated_time': 'none: penman has no clock, timers or deadlines; logical time is '
                              'reported instead (logical_steps)',
            'logical_steps': steps,
            'fault_kinds_fired': faults,
            'probes': probes,
            'probes_unreached': unreached,
            'hash_seeds': [0] + list(hash_seeds),
            'hash_seed_replica_runs': replicas,
            'hash_seed_result_divergences': len(ev_mismatch),
            'worker_counts': [workers],
            'aborted_runs': dict(aborted),
            'bounded_liveness': liveness or {},
            'real_vs_stub': prop.REAL_VS_STUB,
            'violation_counts': dict(viol_counts),
            'known_findings': sorted(set(known_lines)),
            'penman_tree': env.tree_hash(),
        },
        'assumptions': assumptions,
        'wall_s': round(wall, 2),
        'violations': len(reported),
    }
    # evidence/ describes /repo itself; runs against a scratch tree (VERIF_REPO) go elsewhere
    d = os.path.join(env.VERIF_DIR, 'evidence' if env.REPO == os.path.realpath('/repo') else 'evidence-scratch')
    os.makedirs(d, exist_ok=True)
    with open(os.path.join(d, f'{prop.ID}.json'), 'w') as fh:
        json.dump(doc, fh, indent=1, sort_keys=True, default=str)
