"""Greedy delta-debugging over explicit traces.

The property module supplies ``shrink(trace)``: an iterator of strictly simpler
candidate traces (drop clients / operations / faults / graphs / branches,
simplify arguments, thin the schedule, shrink chunk lists).  A candidate is
accepted only if executing it yields a violation with the *same signature*
(oracle and mismatch class).
"""

import copy
import time


def ddmin_list(items):
    """Yield sub-lists of *items*: halves, quarters, ..., single removals."""
    n = len(items)
    if n == 0:
        return
    chunk = n // 2
    seen = set()
    while chunk >= 1:
        for start in range(0, n, chunk):
            keep = items[:start] + items[start + chunk:]
            key = (start, chunk)
            if key not in seen and len(keep) < n:
                seen.add(key)
                yield keep
        chunk //= 2


def with_path(trace, path, value):
    t = copy.deepcopy(trace)
    cur = t
    for p in path[:-1]:
        cur = cur[p]
    cur[path[-1]] = value
    return t


def get_path(trace, path):
    cur = trace
    for p in path:
        cur = cur[p]
    return cur


def list_candidates(trace, path):
    try:
        items = get_path(trace, path)
    except (KeyError, IndexError, TypeError):
        return
    if not isinstance(items, list):
        return
    for keep in ddmin_list(items):
        yield with_path(trace, path, keep)


def minimise(prop, trace, violation, budget_s=45, max_exec=3000, execute=None, stall_s=120):
    """*execute* defaults to ``prop.execute``; the runner passes its own wrapper (step budgets).  Every
    candidate runs under the wall-clock alarm: a candidate that does not come back ends the minimisation
    with the best trace so far (this process may have been left in any state)."""
    from . import stall
    sig = violation.sig
    t_end = time.time() + budget_s
    nexec = 0
    best_v = violation
    run = execute or prop.execute
    stalled = []

    def fails(t):
        nonlocal nexec, best_v
        if stalled:
            return None
        nexec += 1
        try:
            try:
                stall.arm(stall_s)
                res = run(copy.deepcopy(t))
            finally:
                stall.disarm()
        except stall.Stalled:
            stall.disarm()
            stalled.append(nexec)
            return None
        except Exception:
            return None
        for v in res.violations:
            if v.sig == sig:
                best_v = v
                return res.trace if res.trace is not None else t
        return None

    cur = copy.deepcopy(trace)
    # make sure it reproduces in-process at all; if not, keep the original
    r = fails(cur)
    if r is None:
        return trace, violation, nexec
    cur = r
    improved = True
    while improved and time.time() < t_end and nexec < max_exec and not stalled:
        improved = False
        for cand in prop.shrink(cur):
            if time.time() >= t_end or nexec >= max_exec or stalled:
                break
            r = fails(cand)
            if r is not None:
                cur = r
                improved = True
                break
    # final confirmation run fixes best_v to the minimised trace's violation
    if not stalled:
        fails(cur)
    return cur, best_v, nexec
