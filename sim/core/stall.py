"""Bounded liveness for every property: a call that does not return is a violation, not a dead worker.

Two clocks are involved and only one of them ever decides anything:

* a *wall-clock* alarm (SIGALRM in the worker's main thread) notices that a run has been going for far longer
  than any run of that property takes.  It proves nothing - the machine may simply be busy - so all it does is
  stop the worker and ask the parent for a confirmation;
* the confirmation re-executes the same explicit trace in a fresh interpreter under a *logical* clock: a
  ``sys.settrace`` counter of line events in penman frames with a fixed budget.  Exceeding the budget is a pure
  function of the trace and the code, replays exactly, and is what is reported
  (``termination:no-return-within-step-budget``).  A run that completes under the budget was merely slow; its
  result is used as the run's result.
"""

import signal
import sys

from . import env


class BudgetExceeded(BaseException):
    pass


class Stalled(BaseException):
    """Raised in the worker's main thread by the wall-clock alarm."""


class StepBudget:
    """Counts penman line events of the current thread; raises BudgetExceeded beyond *limit*."""

    def __init__(self, limit=None):
        self.limit = limit
        self.steps = 0
        self._prev = None

    def _global(self, frame, event, arg):
        if frame.f_code.co_filename.startswith(env.PENMAN_DIR):
            return self._local
        return None

    def _local(self, frame, event, arg):
        if event == 'line':
            self.steps += 1
            if self.limit is not None and self.steps > self.limit:
                sys.settrace(None)
                raise BudgetExceeded(self.steps)
        return self._local

    def __enter__(self):
        self._prev = sys.gettrace()
        sys.settrace(self._global)
        return self

    def __exit__(self, *a):
        sys.settrace(self._prev)
        return False


def _on_alarm(signum, frame):
    raise Stalled()


def arm(seconds):
    """Start (or restart) the wall-clock alarm for one run."""
    signal.signal(signal.SIGALRM, _on_alarm)
    signal.setitimer(signal.ITIMER_REAL, float(seconds))


def disarm():
    signal.setitimer(signal.ITIMER_REAL, 0.0)
