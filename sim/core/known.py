"""Known-findings file: committed, read-only at run time.

Entries: {"status": "known", "property", "id", "predicate", "what"} suppress
exactly the violations for which the named predicate (implemented in the
property module, over the trace and the violation detail) holds.
Entries with "status": "fixed" suppress nothing.
"""

import json
import os

from . import env

PATH = os.path.join(env.VERIF_DIR, 'known_findings.json')


def load():
    if not os.path.exists(PATH):
        return []
    with open(PATH) as fh:
        return json.load(fh).get('findings', [])


def entry(entries, kid):
    for e in entries:
        if e.get('id') == kid:
            return e
    return {}


def match(prop, entries, trace, violation):
    for e in entries:
        if e.get('status') != 'known' or e.get('property') != prop.ID:
            continue
        pred = getattr(prop, 'KNOWN', {}).get(e.get('predicate'))
        if pred is None:
            continue
        try:
            if pred(trace, violation):
                return e['id']
        except Exception:
            continue
    return None
