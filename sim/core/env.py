"""Locate and import penman from the working tree under test."""

import os
import sys

VERIF_DIR = os.path.dirname(os.path.dirname(os.path.dirname(os.path.abspath(__file__))))
REPO = os.path.realpath(os.environ.get('VERIF_REPO', '/repo'))
PENMAN_DIR = os.path.join(REPO, 'penman') + os.sep

_ready = False


def setup():
    """Make ``import penman`` resolve to $VERIF_REPO/penman (default /repo)."""
    global _ready
    if _ready:
        return
    sys.dont_write_bytecode = True
    if sys.path[0] != REPO:
        sys.path.insert(0, REPO)
    import penman  # noqa
    f = os.path.realpath(penman.__file__)
    if not f.startswith(PENMAN_DIR):
        raise RuntimeError(f'penman imported from {f}, expected under {PENMAN_DIR}')
    # import every submodule now so that no import happens inside a
    # simulated run (imports take locks and are not part of any property)
    import penman.__main__  # noqa
    import penman.codec, penman.constant, penman.epigraph, penman.exceptions  # noqa
    import penman.graph, penman.layout, penman.model, penman.surface  # noqa
    import penman.transform, penman.tree, penman.types  # noqa
    import penman.models.amr, penman.models.noop  # noqa
    quiet_logging()
    _ready = True


def quiet_logging():
    """penman logs through the stdlib; keep it off stderr (NullHandler) but leave the level where a library user
    finds it: NOTSET, i.e. WARNING inherited from the root logger.  Only penman's own main() ever raises or
    lowers it; runs that want another level set it themselves and put it back."""
    import logging
    lg = logging.getLogger('penman')
    lg.setLevel(logging.NOTSET)
    if not any(isinstance(h, logging.NullHandler) for h in lg.handlers):
        lg.addHandler(logging.NullHandler())


def tree_hash() -> str:
    """sha256 over the penman sources being exercised (recorded in replays)."""
    import hashlib
    h = hashlib.sha256()
    for root, dirs, files in sorted(os.walk(PENMAN_DIR)):
        dirs.sort()
        for fn in sorted(files):
            if fn.endswith('.py'):
                p = os.path.join(root, fn)
                h.update(p[len(PENMAN_DIR):].encode())
                with open(p, 'rb') as fh:
                    h.update(fh.read())
    return h.hexdigest()[:16]
