"""Determinism self-test of the simulator itself.

For every implemented property: execute the first N runs of the quick tier in
fresh interpreters (a) twice under PYTHONHASHSEED=0 with different worker
striding, (b) under two other hash seeds; diff decision digests (generator /
scheduler determinism: any difference is a harness defect) and event digests
(per-operation results).
"""

import os
import shutil
import tempfile
import time

from . import runner


def main(a):
    n = 8 if getattr(a, 'quick', False) else a.seeds
    props = [p for p in (a.props.split(',') if a.props else runner.PROPS) if p]
    rc = 0
    t0 = time.time()
    for pid in props:
        try:
            runner.load_prop(pid)
        except Exception as e:   # not implemented yet
            print(f'selftest: {pid}: skipped ({type(e).__name__})')
            continue
        seed = runner.verif_seed()
        scratch = tempfile.mkdtemp(prefix='vsim-self-')
        try:
            jobs = []
            jobs.append(runner.Job('a0', 0, 0, n, 1, True))
            for w in range(4):
                jobs.append(runner.Job(f'b{w}', 0, w, n, 4, True))
            for hs in (1, 987654321):
                for w in range(2):
                    jobs.append(runner.Job(f'h{hs}-{w}', hs, w, n, 2, True))
            fails = runner._run_jobs(jobs, pid, 'quick', seed, scratch, 16, 600, time.time() + 900)
        finally:
            shutil.rmtree(scratch, ignore_errors=True)
        if fails:
            for f in fails:
                print('HARNESS-FAILURE:', f)
            rc = 2
            continue
        base = {r[0]: r for r in jobs[0].result['runs']}
        errs = [e for j in jobs for e in j.result['errors']]
        if errs:
            print(f"HARNESS-FAILURE: {pid}: exception in run {errs[0]['run']}\n{errs[0]['tb']}")
            rc = 2
            continue
        dd, ed = 0, 0
        for j in jobs[1:]:
            for r in j.result['runs']:
                b = base[r[0]]
                if b[1] != r[1]:
                    dd += 1
                    print(f'selftest: {pid}: DECISION log differs run={r[0]} job={j.name}')
                elif b[2] != r[2]:
                    ed += 1
                    print(f'selftest: {pid}: event log differs run={r[0]} job={j.name} hashseed={j.hashseed}')
        print(f'selftest: {pid}: {n} runs x 4 executions (2 striding layouts, 3 hash seeds): '
              f'decision diffs={dd} event diffs={ed}')
        if dd or ed:
            rc = 2
    print(f'selftest: done in {time.time() - t0:.1f}s rc={rc}')
    return rc
