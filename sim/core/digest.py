"""Canonical, hash-seed independent renderings of penman values.

Nothing here uses ``repr`` of objects with identity, dict insertion order of
marker maps, or set iteration order.
"""

import hashlib
import json


def canon_marker(epi):
    from penman.layout import Push, Pop
    from penman.surface import AlignmentMarker
    if isinstance(epi, Push):
        return ['Push', epi.variable]
    if isinstance(epi, Pop):
        return ['POP']
    if isinstance(epi, AlignmentMarker):
        return [type(epi).__name__, list(epi.indices), epi.prefix]
    return [type(epi).__name__, str(epi)]


def canon_atom(x):
    if x is None or isinstance(x, (str, bool, int)):
        return x
    if isinstance(x, float):
        return ['float', repr(x)]
    return ['obj', type(x).__name__, str(x)]


def canon_triple(t):
    return [canon_atom(x) for x in t]


def _skey(x):
    return json.dumps(x, sort_keys=True, ensure_ascii=True, default=str)


def canon_graph(g, with_epidata=True, with_metadata=True):
    d = {
        'T': 'Graph',
        'top': canon_atom(g.top),
        '_top': canon_atom(g._top),
        'triples': [canon_triple(t) for t in g.triples],
    }
    if with_epidata:
        items = [[canon_triple(k), [canon_marker(e) for e in v]]
                 for k, v in g.epidata.items()]
        items.sort(key=_skey)
        d['epidata'] = items
    if with_metadata:
        d['metadata'] = [[k, v] for k, v in g.metadata.items()]
    return d


def canon_node(node):
    var, branches = node
    out = []
    for b in branches:
        role, tgt = b[0], b[1]
        if tgt is None or isinstance(tgt, (str, int, float)):
            out.append([role, canon_atom(tgt)])
        else:
            out.append([role, canon_node(tgt)])
    return [canon_atom(var), out]


def canon_tree(t):
    return {'T': 'Tree', 'node': canon_node(t.node),
            'metadata': [[k, v] for k, v in t.metadata.items()]}


def canon_model(m):
    return {
        'T': type(m).__name__,
        'top_variable': m.top_variable, 'top_role': m.top_role,
        'concept_role': m.concept_role,
        'roles': [[k, _skey(v)] for k, v in m.roles.items()],
        'normalizations': [[k, v] for k, v in m.normalizations.items()],
        'reifications': [[k, [list(x) for x in v]] for k, v in m.reifications.items()],
        'dereifications': [[canon_atom(k), [list(x) for x in v]]
                           for k, v in m.dereifications.items()],
        'role_re': m._role_re.pattern,
    }


def canon_exc(e):
    from penman.exceptions import DecodeError
    if isinstance(e, DecodeError):
        return ['EXC', type(e).__name__, e.message, e.lineno, e.offset, e.text]
    return ['EXC', type(e).__name__, [str(a) for a in e.args]]


def canon(x):
    """Canonical JSON-able rendering of any API result."""
    from penman.graph import Graph
    from penman.tree import Tree
    from penman.model import Model
    from penman.epigraph import Epidatum
    if isinstance(x, BaseException):
        return canon_exc(x)
    if isinstance(x, Graph):
        return canon_graph(x)
    if isinstance(x, Tree):
        return canon_tree(x)
    if isinstance(x, Model):
        return canon_model(x)
    if isinstance(x, Epidatum):
        return canon_marker(x)
    if x is None or isinstance(x, (str, bool, int)):
        return x
    if isinstance(x, float):
        return ['float', repr(x)]
    if isinstance(x, tuple) and hasattr(x, '_fields'):
        return [type(x).__name__] + [canon(y) for y in x]
    if isinstance(x, (list, tuple)):
        return [canon(y) for y in x]
    if isinstance(x, (set, frozenset)):
        return ['SET'] + sorted((canon(y) for y in x), key=_skey)
    if isinstance(x, dict):
        # iteration order of a returned mapping is observable (e.g. the order in which
        # Model.errors lists its contexts), so it is part of the result
        return ['MAP', [[canon(k), canon(v)] for k, v in x.items()]]
    if hasattr(x, 'name') and hasattr(x, 'value') and type(x).__module__.startswith('penman'):
        return ['ENUM', x.name]
    return ['OBJ', type(x).__name__, str(x)]


def dumps(x) -> str:
    return json.dumps(x, sort_keys=True, ensure_ascii=True, default=str)


def sha(x) -> str:
    if not isinstance(x, str):
        x = dumps(x)
    return hashlib.sha256(x.encode('utf-8')).hexdigest()[:16]


# ---- fast structural fingerprints (compared with ==, never serialised) -------------------------

def _fp_marker(e):
    v = getattr(e, 'variable', None)
    if v is not None or type(e).__name__ == 'Push':
        return ('Push', v)
    idx = getattr(e, 'indices', None)
    if idx is not None:
        return (type(e).__name__, tuple(idx), e.prefix)
    return (type(e).__name__,)


def _fp_node(node):
    var, branches = node
    out = []
    for b in branches:
        tgt = b[1]
        if tgt is None or isinstance(tgt, (str, int, float)):
            out.append((b[0], tgt, type(tgt).__name__))
        else:
            out.append((b[0], _fp_node(tgt)))
    return (var, tuple(out))


def fingerprint(x):
    """Hashable structural fingerprint of a shared object, independent of dict insertion order
    of the marker map and of object identity."""
    from penman.graph import Graph
    from penman.tree import Tree
    from penman.model import Model
    if isinstance(x, Graph):
        return ('G', tuple(x.triples), x._top,
                frozenset((k, tuple(_fp_marker(e) for e in v)) for k, v in x.epidata.items()),
                tuple(x.metadata.items()))
    if isinstance(x, Tree):
        return ('T', _fp_node(x.node), tuple(x.metadata.items()))
    if isinstance(x, Model):
        return ('M', type(x).__name__, x.top_variable, x.top_role, x.concept_role, repr(x.roles),
                repr(x.normalizations), repr(x.reifications), repr(x.dereifications), x._role_re.pattern)
    return ('O', dumps(canon(x)))
