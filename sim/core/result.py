"""Result of one simulated run and the protocol a property module implements.

A property module (sim/props/cXX.py) exposes:

  ID            'C09'
  TIERS         {'quick': {...}, 'thorough': {...}}   (runs, hash-seed replicas, timeouts)
  RULE          text: how runs are generated, what is distinct/non-trivial
  REAL_VS_STUB  dict for the evidence file
  ASSUMPTIONS   list of strings
  plan(rng, idx, tier) -> trace (JSON-able dict; fully explicit)
  execute(trace) -> RunResult      (pure function of the trace and the code)
  shrink(trace) -> iterator of simpler candidate traces
  KNOWN         {predicate name: fn(trace, violation) -> bool}
"""

import collections

from . import digest


class Violation:
    __slots__ = ('oracle', 'cls', 'detail')

    def __init__(self, oracle, cls, detail=None):
        self.oracle = oracle      # which oracle of the property fired
        self.cls = cls            # mismatch class / exception type
        self.detail = detail or {}

    @property
    def sig(self):
        return f'{self.oracle}:{self.cls}'

    def to_json(self):
        return {'oracle': self.oracle, 'cls': self.cls, 'detail': self.detail}

    @classmethod
    def from_json(cls, d):
        return cls(d['oracle'], d['cls'], d.get('detail'))


class RunResult:
    def __init__(self):
        self.violations = []
        self.events = []                      # event log (per-operation result digests)
        self.stats = collections.Counter()    # faults fired, probes, logical steps
        self.cover = set()                    # distinct non-trivial signatures
        self.aborted = None                   # reason if the run hit a cap
        self.trace = None                     # completed trace (e.g. recorded schedule)

    def event(self, *parts):
        self.events.append(digest.dumps(parts))

    def violate(self, oracle, cls, **detail):
        self.violations.append(Violation(oracle, cls, detail))

    def hit(self, name, n=1):
        self.stats[name] += n

    def event_digest(self):
        return digest.sha('\n'.join(self.events))


class HarnessError(Exception):
    """Defect or limitation of the simulator itself: exit 2, never VIOLATION."""
