"""vsim: deterministic simulation checks for goodmami/penman.

  vsim check <ID> --tier quick|thorough [--runs N] [--workers N]
  vsim replay <file>
  vsim selftest [--seeds N]
"""

import argparse
import os
import sys

sys.path.insert(0, os.path.dirname(os.path.dirname(os.path.abspath(__file__))))
sys.dont_write_bytecode = True

from sim.core import env  # noqa: E402


def main(argv=None):
    ap = argparse.ArgumentParser(prog='vsim')
    sub = ap.add_subparsers(dest='cmd', required=True)
    c = sub.add_parser('check')
    c.add_argument('prop')
    c.add_argument('--tier', default=os.environ.get('VERIF_TIER', 'quick'),
                   choices=['quick', 'thorough'])
    c.add_argument('--runs', type=int)
    c.add_argument('--workers', type=int)
    r = sub.add_parser('replay')
    r.add_argument('path')
    s = sub.add_parser('selftest')
    s.add_argument('--seeds', type=int, default=200)
    s.add_argument('--props', default='')
    s.add_argument('--quick', action='store_true')
    w = sub.add_parser('_worker')
    w.add_argument('--prop'); w.add_argument('--tier'); w.add_argument('--seed', type=int)
    w.add_argument('--start', type=int); w.add_argument('--stop', type=int)
    w.add_argument('--step', type=int); w.add_argument('--out')
    w.add_argument('--timeout', type=int, default=600)
    w.add_argument('--light', action='store_true')
    w.add_argument('--budget', type=int, default=0)
    w.add_argument('--stall', type=float, default=0)
    e = sub.add_parser('_events')
    e.add_argument('--prop'); e.add_argument('--tier'); e.add_argument('--seed', type=int)
    e.add_argument('--run', type=int)
    e.add_argument('--runs', default='')
    q = sub.add_parser('_seq')
    q.add_argument('--prop'); q.add_argument('--tier'); q.add_argument('--seed', type=int)
    q.add_argument('--runs'); q.add_argument('--sig', default='')
    a = ap.parse_args(argv)

    env.setup()
    from sim.core import runner
    from sim.core.result import HarnessError
    try:
        if a.cmd == 'check':
            return runner.check(a.prop.upper(), a.tier, runs=a.runs, workers=a.workers)
        if a.cmd == 'replay':
            return runner.replay(a.path)
        if a.cmd == 'selftest':
            from sim.core import selftest
            return selftest.main(a)
        if a.cmd == '_worker':
            return runner.worker_main(a)
        if a.cmd == '_events':
            return runner.events_main(a)
        if a.cmd == '_seq':
            return runner.seq_main(a)
    except HarnessError as exc:
        print(f'HARNESS-FAILURE: {exc}')
        return 2
    except Exception:
        import traceback
        traceback.print_exc()
        print('HARNESS-FAILURE: unexpected exception in the simulator')
        return 2
    return 2


if __name__ == '__main__':
    sys.exit(main())
