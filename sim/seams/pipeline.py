"""`penman OPTS < input | penman OPTS` inside one process: two real main()
instances as two baton clients joined by a bounded simulated pipe.

sys.stdin / sys.stdout / sys.stderr / sys.argv are process globals, so for the
duration of the run they are replaced by per-thread proxies.  A full pipe
blocks the writer and an empty one the reader: "blocking" hands the baton to
the other process; in addition the scheduler pre-empts at penman line events
with a seeded probability.  The writer's end is closed when its main() exits.
"""

import io
import json
import sys
import threading

from ..core.rng import Rng
from ..gen import models as gmodels
from ..ref import cli_pipeline
from . import sched, simio
from .cli import _reset_logging


class _Proxy:
    """Forwards everything to the calling thread's own target object."""

    def __init__(self, local, name):
        object.__setattr__(self, '_local', local)
        object.__setattr__(self, '_name', name)

    def _target(self):
        return getattr(object.__getattribute__(self, '_local'), object.__getattribute__(self, '_name'))

    def __getattr__(self, attr):
        return getattr(self._target(), attr)

    def __iter__(self):
        return iter(self._target())

    def __next__(self):
        return next(self._target())


class _Argv(list):
    def __init__(self, local):
        super().__init__()
        self._local = local

    def _t(self):
        return self._local.argv

    def __getitem__(self, i):
        return self._t()[i]

    def __len__(self):
        return len(self._t())

    def __iter__(self):
        return iter(self._t())


class Pipe:
    def __init__(self, capacity):
        self.capacity = max(1, capacity)
        self.buf = ''
        self.closed = False
        self.blocked_full = 0
        self.blocked_empty = 0
        self.bytes = 0


class PipeWriter(io.TextIOBase):
    def __init__(self, pipe, wait):
        self.pipe, self.wait = pipe, wait

    def writable(self):
        return True

    def write(self, s):
        i = 0
        while i < len(s):
            room = self.pipe.capacity - len(self.pipe.buf)
            if room <= 0:
                self.pipe.blocked_full += 1
                if not self.wait():
                    raise BrokenPipeError('simulated: reader gone')
                continue
            self.pipe.buf += s[i:i + room]
            self.pipe.bytes += min(room, len(s) - i)
            i += room
        return len(s)

    def flush(self):
        pass


class PipeReader(io.TextIOBase):
    def __init__(self, pipe, wait):
        self.pipe, self.wait = pipe, wait

    def readable(self):
        return True

    def readline(self, size=-1):
        acc = ''
        while True:
            p = self.pipe
            k = p.buf.find('\n')
            if k >= 0:
                acc += p.buf[:k + 1]
                p.buf = p.buf[k + 1:]
                return acc
            # take what is there to make room for the writer, keep waiting for the newline
            acc += p.buf
            p.buf = ''
            if p.closed:
                return acc
            p.blocked_empty += 1
            if not self.wait():
                return acc

    def __iter__(self):
        return self

    def __next__(self):
        line = self.readline()
        if not line:
            raise StopIteration
        return line


def run_pair(spec, opts, stdin, texts, pipe_cfg, res, order=None):
    """Returns (exit1, exit2, stdout2, exception) or None if not applicable."""
    import argparse
    import penman.__main__ as pm
    # no -v: a verbose run formats log records (Tree/Graph.__str__, penman frames) while holding the
    # logging handler's real lock, where a parked client would block the baton holder for ever
    argv = [a for a in gmodels.cli_args(spec, '/sim/model.json') + cli_pipeline.cli_args(opts) if a != '-v']
    if '-q' in argv or '--quiet' in argv:
        return None
    k = simio.Counters()
    fs = simio.SimFS(k)
    if spec['kind'] == 'custom':
        fs.put('/sim/model.json', json.dumps(spec['spec'], ensure_ascii=False).encode('utf-8'))
    argv1 = list(argv)
    stdin1 = b''
    if stdin:
        stdin1 = texts[0].encode('utf-8')
    else:
        enc = opts.get('encoding') or 'utf-8'
        try:
            for t in texts:
                t.encode(enc)
        except UnicodeEncodeError:
            enc = 'utf-8'
        if opts.get('encoding'):
            argv1 += ['--encoding', enc]
        for i, t in enumerate(texts):
            fs.put(f'/sim/in{i}.penman', t.encode(enc))
        argv1 += [f'/sim/in{i}.penman' for i in (order if order is not None else range(len(texts)))]
    pipe = Pipe(pipe_cfg.get('capacity', 16))
    S = sched.Scheduler(2, rng=Rng(pipe_cfg.get('sched_seed', 0)), p_switch=pipe_cfg.get('p_switch', 0.02))
    local = threading.local()
    out2 = io.StringIO()
    state = {'exit': [None, None], 'exc': None}

    def wait_other(me):
        other = 1 - me
        if other not in S.live:
            return False
        S._pass(S.ctx[me], other, None)
        return True

    def body(me, my_argv, fin, fout):
        def run(ctx):
            S.begin_op(ctx, 'main')
            local.argv = ['penman'] + [fs.real(a_) if isinstance(a_, str) and a_.startswith('/sim/') else a_ for a_ in my_argv]
            local.stdin, local.stdout, local.stderr = fin, fout, io.StringIO()
            try:
                try:
                    pm.main()
                    state['exit'][me] = 0
                except SystemExit as e:
                    state['exit'][me] = 0 if e.code is None else (e.code if isinstance(e.code, int) else 1)
                except Exception as e:      # noqa: judged by the caller
                    state['exc'] = e
                    state['exit'][me] = -1
            finally:
                if me == 0:
                    pipe.closed = True
        return run

    fin1, _ = simio.text_reader(stdin1, simio.Plan(None), k, newline='\n', name='<stdin>')
    w = PipeWriter(pipe, lambda: wait_other(0))
    r = PipeReader(pipe, lambda: wait_other(1))
    old = (sys.argv, sys.stdin, sys.stdout, sys.stderr)
    _reset_logging()
    pm.open = fs.open
    argparse.open = fs.open
    sys.argv = _Argv(local)
    sys.stdin, sys.stdout, sys.stderr = _Proxy(local, 'stdin'), _Proxy(local, 'stdout'), _Proxy(local, 'stderr')
    try:
        S.run([body(0, argv1, fin1, w), body(1, list(argv), r, out2)], first=pipe_cfg.get('sched_seed', 0) % 2)
    finally:
        sys.argv, sys.stdin, sys.stdout, sys.stderr = old
        for mod in (pm, argparse):
            try:
                del mod.open
            except AttributeError:
                pass
        _reset_logging()
    res.hit('step.pipe_chars', pipe.bytes)
    res.hit('fault.pipe_full_blocks', pipe.blocked_full)
    res.hit('fault.pipe_empty_blocks', pipe.blocked_empty)
    res.hit('step.context_switches', S.switches)
    res.hit('step.line_steps', S.steps)
    return state['exit'][0], state['exit'][1], out2.getvalue(), state['exc']
