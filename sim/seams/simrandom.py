"""S8: the global PRNG that Model.random_order draws from, owned by the simulator.

``penman.model`` looks ``random`` up as a module global, so installing an
object with a ``random()`` method there replaces the key stream without any
source edit."""


import random as _random


class Stream(_random.Random):
    """A complete stand-in for the ``random`` module as penman.model sees it: every function of the module
    exists (it is a ``random.Random``: seed, getstate, setstate, uniform, shuffle, ... and the ``Random`` /
    ``SystemRandom`` classes), so code that starts using more of the module than ``random()`` keeps working;
    only the stream of ``random()`` values is the planned one.  In 'seeded' mode it *is* an ordinary
    Mersenne Twister seeded by the simulator."""

    Random = _random.Random
    SystemRandom = _random.SystemRandom

    def __init__(self, spec):
        self.mode = spec.get('mode', 'seeded')
        self.calls = 0
        self.values = []
        super().__init__(int(spec.get('seed', 0)))

    def random(self):
        self.calls += 1
        if self.mode == 'constant':
            v = 0.5
        elif self.mode == 'decreasing':
            v = 1.0 / (1 + self.calls)
        elif self.mode == 'two':
            v = 0.25 if super().random() < 0.5 else 0.75
        else:
            v = super().random()
        self.values.append(v)
        return v


class installed:
    def __init__(self, spec):
        self.stream = Stream(spec or {})

    _MISSING = object()

    def __enter__(self):
        import penman.model as pm
        # penman.model may not have a global named `random` at all (e.g. `from random import random`): the seam
        # is then simply not on the path of the code, which draws from the interpreter-wide PRNG instead
        self._old = getattr(pm, 'random', self._MISSING)
        pm.random = self.stream
        return self.stream

    def __exit__(self, *a):
        import penman.model as pm
        if self._old is self._MISSING:
            try:
                del pm.random
            except AttributeError:
                pass
        else:
            pm.random = self._old
        return False
