"""S8: the global PRNG that Model.random_order draws from, owned by the simulator.

``penman.model`` looks ``random`` up as a module global, so installing an
object with a ``random()`` method there replaces the key stream without any
source edit."""


class Stream:
    def __init__(self, spec):
        from ..core.rng import Rng
        self.mode = spec.get('mode', 'seeded')
        self.rng = Rng(spec.get('seed', 0))
        self.calls = 0
        self.values = []

    def random(self):
        self.calls += 1
        if self.mode == 'constant':
            v = 0.5
        elif self.mode == 'decreasing':
            v = 1.0 / (1 + self.calls)
        elif self.mode == 'two':
            v = 0.25 if self.rng.random() < 0.5 else 0.75
        else:
            v = self.rng.random()
        self.values.append(v)
        return v


class installed:
    def __init__(self, spec):
        self.stream = Stream(spec or {})

    def __enter__(self):
        import penman.model as pm
        self._old = pm.random
        pm.random = self.stream
        return self.stream

    def __exit__(self, *a):
        import penman.model as pm
        pm.random = self._old
        return False
