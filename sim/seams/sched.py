"""Baton scheduler: real threads, one runnable at a time, seeded pre-emption.

N client threads exist; exactly one holds the baton, the others wait on a
Condition.  A ``sys.settrace`` tracer returns a local trace function only for
frames of penman source files that are enabled for pre-emption, so stdlib
frames are atomic.  On every *line* event the scheduler decides: continue,
hand the baton to another client, or inject a cancellation.  In record mode
the decision comes from a seeded PRNG and every baton pass is appended to the
schedule as ``[client, op_id, line_in_op, successor]`` (``op_id`` is the stable
id of the client's current operation, so schedules survive the removal of
other operations during minimisation).  In replay mode only the recorded
passes happen.

CPython (with the GIL) can really switch threads between any two bytecodes,
so every schedule produced here is one a real deployment can exhibit.
"""

import os
import sys
import threading

from ..core import env


class SimCancelled(BaseException):
    """Asynchronous cancellation injected at a chosen line of a chosen call."""


class StepCapExceeded(BaseException):
    """The threaded phase of a run executed more line events than the cap (>= 90 x the largest run of the
    unchanged tree): raised in every client at its next line event so that no thread spins for ever."""


class ClientCtx:
    def __init__(self, idx):
        self.idx = idx
        self.op_id = None
        self.line = 0
        self.done = False
        self.error = None


class Scheduler:
    def __init__(self, nclients, rng=None, p_switch=0.01, files=None, sticky=False,
                 schedule=None, cancels=None, step_cap=2_000_000, on_switch=None):
        self.n = nclients
        self.rng = rng
        self.p = p_switch
        self.sticky = sticky
        self.replay = schedule is not None
        self.schedule = [list(x) for x in schedule] if schedule is not None else []
        self.switch_map = {}
        self.end_map = {}
        for c, op, line, succ in self.schedule:
            if op == 'end':
                self.end_map[c] = succ
            else:
                self.switch_map[(c, op, line)] = succ
        self.cancel_map = {(f['client'], f['op_id'], f['at_line']): f for f in (cancels or [])}
        self.cancel_fired = []
        self.step_cap = step_cap
        self.on_switch = on_switch
        self.steps = 0
        self.switches = 0
        self.aborted = False
        self.cv = threading.Condition()
        self.current = None
        self.live = []
        self.ctx = [ClientCtx(i) for i in range(nclients)]
        self.cur_ctx = None
        if files:
            self.enabled = {os.path.join(env.PENMAN_DIR, f) for f in files if not f.startswith('stdlib:')}
        else:
            self.enabled = None
        # pure-Python stdlib modules whose frames are pre-emptible too when asked for ('stdlib:copy'): a real
        # thread can lose the GIL in the middle of copy.deepcopy(graph) just as well as inside penman
        self.stdlib = set()
        for f in files or []:
            if f.startswith('stdlib:'):
                import importlib
                self.stdlib.add(importlib.import_module(f[7:]).__file__)
        if self.enabled is not None and not self.enabled:
            self.enabled = None
        self.preempt_sites = set()
        self.harness_error = None

    # ---- tracing ---------------------------------------------------------------
    def _global(self, frame, event, arg):
        fn = frame.f_code.co_filename
        if fn in self.stdlib:
            return self._local
        if self.enabled is None:
            if fn.startswith(env.PENMAN_DIR):
                return self._local
        elif fn in self.enabled:
            return self._local
        return None

    def _local(self, frame, event, arg):
        if event != 'line':
            return self._local
        self.steps += 1
        c = self.cur_ctx
        c.line += 1
        key = (c.idx, c.op_id, c.line)
        if self.cancel_map and key in self.cancel_map:
            f = self.cancel_map.pop(key)
            self.cancel_fired.append(f)
            raise SimCancelled(f'{key} at {os.path.basename(frame.f_code.co_filename)}:{frame.f_lineno}')
        if self.replay:
            succ = self.switch_map.get(key)
            if succ is not None:
                self._pass(c, succ, frame)
        elif not self.aborted and len(self.live) > 1 and self.rng.random() < self.p:
            others = [i for i in self.live if i != c.idx]
            succ = others[self.rng.randrange(len(others))]
            self.schedule.append([c.idx, c.op_id, c.line, succ])
            self._pass(c, succ, frame)
        if self.steps > self.step_cap:
            self.aborted = True
            raise StepCapExceeded(self.steps)
        return self._local

    def _pass(self, c, succ, frame):
        if succ not in self.live:
            others = [i for i in self.live if i != c.idx]
            if not others:
                return
            succ = others[0]
        if succ == c.idx:
            return
        self.switches += 1
        if frame is not None:
            self.preempt_sites.add((os.path.basename(frame.f_code.co_filename), frame.f_lineno))
        if self.on_switch is not None:
            self.on_switch(c.idx, succ, frame)
        me = c.idx
        with self.cv:
            self.current = succ
            self.cur_ctx = self.ctx[succ]
            self.cv.notify_all()
            while self.current != me:
                self.cv.wait()
            self.cur_ctx = c

    # ---- client life cycle -------------------------------------------------------
    def _client_main(self, idx, body):
        c = self.ctx[idx]
        with self.cv:
            while self.current != idx:
                self.cv.wait()
            self.cur_ctx = c
        sys.settrace(self._global)
        try:
            body(c)
        except BaseException as e:      # noqa: a defect of the harness, reported as such
            c.error = e
            self.harness_error = e
        finally:
            sys.settrace(None)
            c.done = True
            with self.cv:
                self.live.remove(idx)
                if self.live:
                    if self.replay:
                        succ = self.end_map.get(idx)
                        if succ not in self.live:
                            succ = self.live[0]
                    else:
                        succ = self.live[self.rng.randrange(len(self.live))] if self.rng else self.live[0]
                        self.schedule.append([idx, 'end', 0, succ])
                    self.current = succ
                    self.cur_ctx = self.ctx[succ]
                else:
                    self.current = None
                self.cv.notify_all()

    def rearm(self):
        """Re-install tracing after an exception raised by the tracer disabled it."""
        sys.settrace(self._global)

    def begin_op(self, c, op_id):
        c.op_id = op_id
        c.line = 0

    def run(self, bodies, first=0):
        threads = []
        self.live = list(range(len(bodies)))
        for i, body in enumerate(bodies):
            t = threading.Thread(target=self._client_main, args=(i, body), name=f'sim-client-{i}', daemon=True)
            threads.append(t)
        for t in threads:
            t.start()
        with self.cv:
            self.current = first if first in self.live else self.live[0]
            self.cv.notify_all()
            while self.live:
                self.cv.wait(timeout=120)
        for t in threads:
            t.join(timeout=60)
        if self.harness_error is not None:
            raise self.harness_error
