"""The process boundary of the `penman` command, simulated in-process.

Runs the real ``penman.__main__.main`` with sys.argv / stdin / stdout /
stderr and the module-level ``open`` (penman.__main__ and argparse, for
``--model FILE``) replaced by simulator-owned objects over SimFS, catches
SystemExit, and puts logging and sys.* back afterwards.
"""

import io
import logging
import os
import subprocess
import sys

from . import simio


class CliResult:
    def __init__(self):
        self.exit = None        # int exit status (None if an exception escaped main)
        self.stdout = ''
        self.stdout_bytes = b''
        self.stderr = ''
        self.exc = None         # non-SystemExit exception that escaped main()
        self.stdout_error = None


def _reset_logging():
    root = logging.getLogger()
    for h in list(root.handlers):
        root.removeHandler(h)
    lg = logging.getLogger('penman')
    lg.setLevel(logging.NOTSET)      # the library default: whatever main() set must not leak into library calls


class _SimSelect:
    """Readiness seam: penman never waits for readiness, but if code under test asks select() about the
    simulated stdin, the simulator answers - "not ready yet" for the first *slow* calls (a producer that has
    not written its first byte), ready afterwards.  Everything else goes to the real select."""

    def __init__(self, stdin, slow, counters):
        import select as _select
        self.real = _select.select
        self.stdin, self.slow, self.k = stdin, slow, counters

    def __call__(self, rlist, wlist, xlist, timeout=None):
        mine = [r for r in rlist if r is self.stdin or r is sys.stdin]
        if not mine:
            return self.real(rlist, wlist, xlist, timeout)
        if self.slow > 0 and timeout is not None:
            self.slow -= 1
            self.k.hit('fault.stdin_not_ready')
            return [], [], []
        return mine, [], []


def run_cli(argv, stdin_bytes=b'', files=None, plans=None, stdin_plan=None, stdout_plan=None,
            counters=None, stdin_encoding='utf-8', text_chunk=None, stdin_slow=0):
    """Run the real main() once.  files: {path: bytes} placed on SimFS."""
    import argparse
    import penman.__main__ as pm
    k = counters or simio.Counters()
    fs = simio.SimFS(k)
    for path, data in (files or {}).items():
        fs.put(path, data, (plans or {}).get(path))
    fs.put(os.devnull, b'')
    res = CliResult()
    old = (sys.argv, sys.stdin, sys.stdout, sys.stderr)
    # POSIX CPython creates sys.stdin with newline='\n' (no universal-newline translation)
    stdin, _ = simio.text_reader(stdin_bytes, simio.Plan(stdin_plan), k, encoding=stdin_encoding,
                                 newline='\n', name='<stdin>')
    if text_chunk:
        stdin._CHUNK_SIZE = max(1, text_chunk)
    stdout, raw_out = simio.text_writer(simio.Plan(stdout_plan), k, encoding='utf-8', name='<stdout>')
    stderr = io.StringIO()
    _reset_logging()
    pm.open = fs.open
    argparse.open = fs.open
    import select as _select
    simsel = _SimSelect(stdin, stdin_slow, k)
    _select.select = simsel
    # the code under test is handed real paths (every simulated file also exists in the scratch directory)
    sys.argv = ['penman'] + [fs.real(a) if isinstance(a, str) and a.startswith('/sim/') else a for a in argv]
    sys.stdin, sys.stdout, sys.stderr = stdin, stdout, stderr
    try:
        try:
            pm.main()
            res.exit = 0      # main() always calls sys.exit; falling through means status 0
        except SystemExit as e:
            code = e.code
            if code is None:
                res.exit = 0
            elif isinstance(code, int):
                # what the parent of a real process sees: the low eight bits (sys.exit(256) is "success")
                res.exit = code & 0xFF
            else:
                stderr.write(str(code) + '\n')
                res.exit = 1
        except BaseException as e:   # noqa: results to be judged, not harness failures
            from ..core.stall import BudgetExceeded, Stalled
            if isinstance(e, (KeyboardInterrupt, BudgetExceeded, Stalled)):
                raise
            res.exc = e
    finally:
        cur_out = sys.stdout
        _select.select = simsel.real
        sys.argv, sys.stdin, sys.stdout, sys.stderr = old
        try:
            del pm.open
        except AttributeError:
            pass
        try:
            del argparse.open
        except AttributeError:
            pass
        _reset_logging()
        for fh in {id(stdout): stdout, id(cur_out): cur_out}.values():
            try:
                if not fh.closed:
                    fh.close()
            except Exception as e:
                if fh is stdout or fh is cur_out:
                    res.stdout_error = e
        try:
            stdin.close()
        except Exception:
            pass
    res.stdout_bytes = bytes(raw_out.durable)
    res.stdout = res.stdout_bytes.decode('utf-8', 'replace')
    res.stderr = stderr.getvalue()
    res.fs = fs
    return res


def run_subprocess(argv, stdin_bytes=b'', cwd=None, hashseed='0', repo=None, timeout=120, unbuffered=False,
                   optimize=False):
    """The real thing: python -m penman in a child process (real files in cwd).  stdout is a pipe, i.e.
    block-buffered as in a real shell pipeline unless *unbuffered*; the sandbox's own PYTHONUNBUFFERED=1
    is never inherited (it would force write-through and hide any reordering between the text layer and
    the byte layer of stdout)."""
    from ..core import env
    e = dict(os.environ)
    e['PYTHONHASHSEED'] = str(hashseed)
    e['PYTHONPATH'] = repo or env.REPO
    e['PYTHONDONTWRITEBYTECODE'] = '1'
    e['PYTHONIOENCODING'] = 'utf-8'
    e['PYTHONUTF8'] = '1'
    e.pop('PYTHONUNBUFFERED', None)
    if unbuffered:
        e['PYTHONUNBUFFERED'] = '1'
    # optimize: python -O (assert statements are compiled away; nothing may depend on them)
    p = subprocess.run([sys.executable, '-B'] + (['-O'] if optimize else []) + ['-m', 'penman'] + list(argv), input=stdin_bytes,
                       capture_output=True, cwd=cwd, env=e, timeout=timeout)
    return p.returncode, p.stdout, p.stderr
