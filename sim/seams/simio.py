"""Simulated raw devices under the *real* CPython buffered/text I/O layers.

SimRawReader serves a byte string in planned chunks, can raise
InterruptedError (must be retried by the real BufferedReader), EIO at byte k,
or end prematurely at byte k.  SimRawWriter accepts planned short writes, can
raise InterruptedError, ENOSPC/EIO at byte k, or fail at close; the bytes it
accepted are the "durable" content.

SimFS is a tiny file namespace; ``sim_open`` mimics the builtin ``open``
(text mode only) and is installed as a module attribute of penman.codec /
penman.__main__, which look ``open`` up as a global.
"""

import errno
import io
import os


class Plan:
    """Explicit, replayable I/O plan for one stream."""

    def __init__(self, d=None):
        d = d or {}
        self.chunks = list(d.get('chunks') or [4096])   # cyclic list of max sizes
        self.eintr_at = set(d.get('eintr_at') or [])     # call indices that raise EINTR first
        self.error_at = d.get('error_at')                # byte offset
        self.error_kind = d.get('error_kind')            # 'EIO' | 'EOF' | 'ENOSPC'
        self.buffer_size = d.get('buffer_size') or io.DEFAULT_BUFFER_SIZE
        self.close_error = d.get('close_error')


class Counters:
    def __init__(self):
        self.c = {}

    def hit(self, k, n=1):
        self.c[k] = self.c.get(k, 0) + n


class SimRawReader(io.RawIOBase):
    def __init__(self, data: bytes, plan: Plan, counters: Counters, name='<sim>'):
        self.data = data
        self.plan = plan
        self.pos = 0
        self.calls = 0
        self.k = counters
        self.name = name
        self._eintr_done = set()
        self.error_fired = False

    def readable(self):
        return True

    def readinto(self, b):
        call = self.calls
        self.calls += 1
        if call in self.plan.eintr_at and call not in self._eintr_done:
            self._eintr_done.add(call)
            self.calls -= 1          # the retried call keeps its index
            self.k.hit('fault.read_eintr')
            raise InterruptedError(errno.EINTR, 'simulated EINTR')
        limit = len(self.data)
        kind, at = self.plan.error_kind, self.plan.error_at
        faulty = kind in ('EIO', 'EOF') and at is not None and at < len(self.data)
        if faulty:
            limit = at
        if self.pos >= limit:
            if faulty and kind == 'EIO':
                self.error_fired = True
                self.k.hit('fault.read_eio')
                raise OSError(errno.EIO, 'simulated EIO')
            if faulty and not self.error_fired:
                self.error_fired = True
                self.k.hit('fault.read_premature_eof')
            return 0
        size = self.plan.chunks[call % len(self.plan.chunks)]
        n = max(1, min(size, len(b), limit - self.pos))
        chunk = self.data[self.pos:self.pos + n]
        if n < len(b) and self.pos + n < limit:
            self.k.hit('fault.short_read')
        # probes: device reads that split a CRLF pair or a multi-byte sequence
        end = self.pos + n
        if end < len(self.data):
            if self.data[end - 1:end] == b'\r' and self.data[end:end + 1] == b'\n':
                self.k.hit('probe.split_inside_crlf')
            if self.data[end] & 0xC0 == 0x80:
                self.k.hit('probe.split_inside_multibyte')
        b[:n] = chunk
        self.pos = end
        self.k.hit('step.bytes_read', n)
        return n


class SimRawWriter(io.RawIOBase):
    """*seekable*: a regular file (SimFS) can tell its position, a pipe / terminal (the simulated stdout) cannot.
    The real text layer looks at this: only at position 0 of a seekable stream does it write the byte-order mark
    of utf-16 / utf-32 / utf-8-sig."""

    def __init__(self, plan: Plan, counters: Counters, name='<sim>', seekable=False):
        self._seekable = bool(seekable)
        self.plan = plan
        self.durable = bytearray()
        self.calls = 0
        self.k = counters
        self.name = name
        self._eintr_done = set()
        self.error_fired = False

    def writable(self):
        return True

    def seekable(self):
        return self._seekable

    def tell(self):
        if not self._seekable:
            raise io.UnsupportedOperation('not seekable')
        return len(self.durable)

    def seek(self, offset, whence=0):
        if not self._seekable:
            raise io.UnsupportedOperation('not seekable')
        pos = {0: 0, 1: len(self.durable), 2: len(self.durable)}[whence] + offset
        if pos != len(self.durable):
            raise io.UnsupportedOperation('SimFS: a write-only file can only be appended to')
        return pos

    def write(self, b):
        call = self.calls
        self.calls += 1
        if call in self.plan.eintr_at and call not in self._eintr_done:
            self._eintr_done.add(call)
            self.calls -= 1
            self.k.hit('fault.write_eintr')
            raise InterruptedError(errno.EINTR, 'simulated EINTR')
        data = bytes(b)
        if not data:
            return 0
        size = self.plan.chunks[call % len(self.plan.chunks)]
        n = max(1, min(size, len(data)))
        if self.plan.error_at is not None and self.plan.error_kind in ('ENOSPC', 'EIO'):
            room = self.plan.error_at - len(self.durable)
            if room <= 0:
                self.error_fired = True
                self.k.hit('fault.write_' + self.plan.error_kind.lower())
                code = errno.ENOSPC if self.plan.error_kind == 'ENOSPC' else errno.EIO
                raise OSError(code, 'simulated ' + self.plan.error_kind)
            n = min(n, room)
        if n < len(data):
            self.k.hit('fault.short_write')
        self.durable += data[:n]
        self.k.hit('step.bytes_written', n)
        return n

    def close(self):
        if not self.closed and self.plan.close_error:
            self.plan_close_fired = True
            super().close()
            self.error_fired = True
            self.k.hit('fault.close_error')
            raise OSError(errno.EIO, 'simulated EIO at close')
        super().close()


def text_reader(data: bytes, plan: Plan, counters, encoding='utf-8', newline=None, name='<sim>'):
    raw = SimRawReader(data, plan, counters, name)
    buf = io.BufferedReader(raw, buffer_size=plan.buffer_size)
    return io.TextIOWrapper(buf, encoding=encoding, newline=newline), raw


def text_writer(plan: Plan, counters, encoding='utf-8', newline=None, name='<sim>',
                line_buffering=False, seekable=False):
    raw = SimRawWriter(plan, counters, name, seekable=seekable)
    buf = io.BufferedWriter(raw, buffer_size=plan.buffer_size)
    return io.TextIOWrapper(buf, encoding=encoding, newline=newline,
                            line_buffering=line_buffering), raw


_ROOTS = []


def cleanup_all():
    """Remove the scratch directories of every SimFS created so far (called after each run)."""
    import shutil
    while _ROOTS:
        shutil.rmtree(_ROOTS.pop(), ignore_errors=True)


class SimFS:
    """Path -> bytes, with one I/O plan per path (default: benign).

    The property code names files '/sim/<name>'.  Every SimFS also owns a real scratch directory in which each
    file it is given exists with the same content, and penman is handed the *real* path (``fs.real('/sim/x')``).
    Code that opens files through the shadowed ``open`` gets the simulated device (chunking, EINTR, error faults);
    code that reaches the file system any other way (pathlib methods, os.path tests, fileinput, an opener) finds a
    real file - without fault injection, but it is judged by what it reads and writes, not by the narrowness of the
    seam."""

    def __init__(self, counters=None):
        import tempfile
        self.files = {}
        self.plans = {}
        self.k = counters or Counters()
        self.opened = []          # (path, mode) history
        self.writers = {}
        self._root = None

    @property
    def root(self):
        """The scratch directory, created when the first file or path is asked for."""
        if self._root is None:
            import tempfile
            self._root = tempfile.mkdtemp(prefix='vsim-fs-')
            _ROOTS.append(self._root)
        return self._root

    def real(self, path):
        """'/sim/x' -> the real path handed to the code under test (anything else is returned as it is)."""
        path = str(path)
        if path.startswith('/sim/'):
            return os.path.join(self.root, path[5:])
        return path

    def _key(self, path):
        path = str(path)
        if self._root is not None and path.startswith(self._root + os.sep):
            return '/sim/' + path[len(self.root) + 1:]
        return path

    def put(self, path, data: bytes, plan=None):
        path = self._key(path)
        self.files[path] = data
        if plan is not None:
            self.plans[path] = plan
        if path.startswith('/sim/'):
            with open(self.real(path), 'wb') as fh:
                fh.write(bytes(data))

    def plan_for(self, path):
        p = self.plans.get(self._key(path))
        return p if isinstance(p, Plan) else Plan(p)

    def open(self, file, mode='r', buffering=-1, encoding=None, errors=None, newline=None,
             closefd=True, opener=None):
        """The builtin's signature and semantics for the modes a text tool can reasonably use: r / w / a / x,
        text or binary ('b'), so that code which opens its files differently than the pinned tree does (binary
        handle plus its own encoding, append, exclusive creation) is judged by what it writes, not by a
        limitation of the simulated file system.  *opener* and '+' modes are not simulated."""
        path = self._key(file)
        self.opened.append((path, mode))
        enc = encoding or 'utf-8'     # the simulated platform default
        binary = 'b' in mode
        kind = mode.replace('b', '').replace('t', '')
        if binary and (encoding is not None or newline is not None or errors is not None):
            raise ValueError("binary mode doesn't take an encoding, errors or newline argument")
        if kind == 'r':
            if path not in self.files and self._root is not None and os.path.isfile(self.real(path)):
                with open(self.real(path), 'rb') as fh_:       # created outside the shadowed open
                    self.files[path] = fh_.read()
            if path not in self.files:
                raise FileNotFoundError(errno.ENOENT, 'No such file (simulated)', path)
            if binary:
                raw = SimRawReader(bytes(self.files[path]), self.plan_for(path), self.k, path)
                return io.BufferedReader(raw, buffer_size=self.plan_for(path).buffer_size)
            fh, raw = text_reader(bytes(self.files[path]), self.plan_for(path), self.k,
                                  encoding=enc, newline=newline, name=path)
            if errors is not None:
                fh.reconfigure(errors=errors)
            return fh
        if kind in ('w', 'a', 'x'):
            if kind == 'x' and path in self.files:
                raise FileExistsError(errno.EEXIST, 'File exists (simulated)', path)
            plan = self.plan_for(path)
            raw = SimRawWriter(plan, self.k, path, seekable=True)
            if kind == 'a' and path in self.files:
                raw.durable += bytes(self.files[path])
            self.writers[path] = raw
            self.files[path] = raw.durable   # live view of the durable bytes
            buf = io.BufferedWriter(raw, buffer_size=plan.buffer_size)
            if binary:
                return buf
            return io.TextIOWrapper(buf, encoding=enc, newline=newline, errors=errors)
        raise ValueError(f'SimFS: mode {mode!r} not simulated')

    def exists(self, path) -> bool:
        path = self._key(path)
        return path in self.files or (self._root is not None and os.path.exists(self.real(path)))

    def durable(self, path) -> bytes:
        """What is on the (simulated) disk under *path*: the durable bytes of the simulated device if the file was
        last written through the shadowed open, else the content of the real scratch file."""
        path = self._key(path)
        if path in self.writers or self._root is None or not os.path.exists(self.real(path)):
            return bytes(self.files[path])
        with open(self.real(path), 'rb') as fh:
            data = fh.read()
        if data != bytes(self.files.get(path, b'')):
            self.k.hit('probe.file_written_outside_the_open_seam')
        return data
